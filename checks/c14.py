"""C14 - file sources and context windows refer to the text, not the path.

System under simulation: the 19 methods that take is_path, 1-3 patterns, 1-3 simulated
files, client tasks plus a writer task; faults on the raw byte layer behind open().
Oracle: differential m(path, is_path=True, **kw) == m(text, **kw) plus the window formula.
"""
import re

from sim import corpus, recipes, sched, simfs
from sim.kernel import EventLog, HarnessError, Violation, stream

PROPERTY = "C14"
FLAGS = re.MULTILINE | re.DOTALL

PATTERNS = ["word", "digits", "kv", "optgrp", "linestart", "lineend", "strstart", "strend",
            "anyspan", "greek", "accent", "astral", "optx", "a_opt_a", "either", "lookbehind",
            "wordb", "neg_cls", "ctrl", "raw_named", "raw_ws", "raw_dot", "heart", "bs_capture"]

PATHS = ["/pgsim/data/a1 b22.txt", "/pgsim/x=1/k=22 ab9.log", "/pgsim/αβγ 12/é #7.txt",
         "/pgsim/aaa/axb a b.md", "/pgsim/n/foo bar9 is cat 2024-05"]

GETTERS = ["get_matches", "get_matches_and_pos", "get_matches_with_context", "get_captures",
           "get_captures_and_pos", "get_named_captures", "get_named_captures_and_pos"]
ITERS = ["iterate_" + g[4:] for g in GETTERS]
OTHERS = ["has_match", "is_exact_match", "replace", "split_by_match", "split_by_capture"]
METHODS = GETTERS + ITERS + OTHERS          # 19
BAD_SIZES = [-1, 1.5, True, "2", None, -7, False]


def kw_for(rng, method, allow_bad=True):
    base = method.replace("iterate_", "").replace("get_", "")
    kw = {}
    if base == "matches_with_context":
        sizes = [0, 0, 1, 2, 5, 5, 1000]
        if rng.random() < 0.8:
            kw["n_left"] = rng.choice(sizes)
        if rng.random() < 0.8:
            kw["n_right"] = rng.choice(sizes)
        if allow_bad and rng.random() < 0.12:
            kw[rng.choice(["n_left", "n_right"])] = rng.choice(BAD_SIZES)
    elif base in ("captures", "named_captures"):
        if rng.random() < 0.6:
            kw["include_empty"] = rng.random() < 0.5
    elif base in ("captures_and_pos", "named_captures_and_pos"):
        if rng.random() < 0.6:
            kw["include_empty"] = rng.random() < 0.5
        if rng.random() < 0.6:
            kw["relative_to_match"] = rng.random() < 0.5
    elif method == "replace":
        kw["repl"] = rng.choice(["", "#", "<\\g<0>>", "é"])
        if rng.random() < 0.5:
            kw["count"] = rng.choice([0, 1, 2])
    elif method == "split_by_capture":
        if rng.random() < 0.5:
            kw["include_empty"] = rng.random() < 0.5
    return kw


CONTENT_CLASSES = ["plain", "multiline", "crlf", "cr", "bom", "nofinalnl", "empty", "multibyte", "large", "not_utf8", "exact"]
HUGE_CLASSES = ["huge_crlf", "huge_mixed", "boundary"]
LAST_EXACT = []      # side channel of make_content: the pattern name an "exact" content was built for      # > 64 Ki characters: block-wise readers meet their block edges


def make_content(rng, names, cls, tier):
    t = corpus.make_text(rng, names, max_words=10, multiline=cls not in ("plain",))
    if cls == "empty":
        t = ""
    elif cls == "crlf":
        t = t.replace("\r\n", "\n").replace("\n", "\r\n") or "a\r\nb1\r\n"
    elif cls == "cr":
        t = t.replace("\n", "\r") or "a\rb2"
    elif cls == "bom":
        t = "﻿" + t
    elif cls == "nofinalnl":
        t = t.rstrip("\n") or "abc 12"
    elif cls == "multibyte":
        t = "".join(rng.choice(["é", "λ", "日", "😀", "𝔘", "ab", "1", " ", "\n"]) for _ in range(rng.randint(3, 40))) + t
    elif cls == "large":
        unit = t + "\n" + "".join(rng.choice(["é", "λ", "日本", "😀", "ab1 ", "k=2 "]) for _ in range(20))
        target = rng.choice([9000, 17000]) if tier == "thorough" else rng.choice([600, 9000])
        t = (unit * (target // max(1, len(unit)) + 1))[:target]
    if cls == "exact":
        # the whole file is one match of one of the run's patterns (short, > 8 Ki or > 64 Ki characters)
        cands = [nm for nm in names if nm in corpus.EXACT]
        if cands:
            LAST_EXACT.append(rng.choice(cands))
            cands = [LAST_EXACT[-1]]
            n = rng.choice([3, 12, 40, 40, 5000, 8191, 8192, 8193, 9000, 9000] if tier == "thorough" or rng.random() < 0.5
                           else [3, 12, 40, 200, 9000])
            return corpus.EXACT[rng.choice(cands)](n).encode("utf-8")
    if cls == "boundary":
        # size coincidences: byte / character length exactly at (or one off) a typical block size, a multi-byte character
        # straddling that offset, and a witness that ends exactly at the end of the text
        n = rng.choice([4096, 4096, 8192, 8192, 8192, 16384, 65536])
        delta = rng.choice([-1, 0, 0, 1, 2])
        tail = rng.choice([t[-12:] or "ab12", "k=7", "abc", "42", "is", "x"])
        filler_unit = (t[:30] or "ab 12 cd") + rng.choice(["\n", " ", "\r\n"])
        if rng.random() < 0.5:
            body_len = n + delta - len(tail)                     # ASCII only: characters == bytes
            filler_unit = filler_unit.encode("ascii", "ignore").decode() or "ab 1\n"
            body = (filler_unit * (body_len // len(filler_unit) + 1))[:body_len]
            return (body + tail).encode("utf-8")
        pre_len = n - 1                                           # a 2..4-byte character starts at byte n-1
        filler_unit = filler_unit.encode("ascii", "ignore").decode() or "ab 1\n"
        body = (filler_unit * (pre_len // len(filler_unit) + 1))[:pre_len]
        return (body + rng.choice(["é", "日", "😀"]) + "z" * max(0, delta) + tail).encode("utf-8")
    if cls in HUGE_CLASSES:
        # short lines of varying length, so that line ends fall on every residue of any block size
        eol = "\r\n" if cls == "huge_crlf" else None
        target = rng.choice([66000, 70000, 132000])
        words = [t[:40] or "ab 12", "k=7", "é", "日本", "😀", "abc", "x", "42", "a b", ""]
        parts, n = [], 0
        while n < target:
            w = rng.choice(words) + (eol or rng.choice(["\n", "\r\n", "\n", "\r"]))
            parts.append(w)
            n += len(w)
        return "".join(parts).encode("utf-8")
    if cls == "not_utf8":
        # not a UTF-8 file: the property promises nothing for calls on it, but they must not change what
        # later calls on proper UTF-8 files return
        return (t + " caf\u00e9 na\u00efve 12 \u00fc\n").encode("latin-1", "replace")
    return t.encode("utf-8")


def same_length_variant(rng, data):
    """A different content with the same number of bytes (and characters): ASCII letters and digits are
    rotated, so matches move/change while size-based staleness checks see nothing."""
    try:
        text = data.decode("utf-8")
    except UnicodeDecodeError:
        return data[::-1]
    k = rng.randint(1, 7)
    out = []
    for ch in text:
        if "a" <= ch <= "z":
            out.append(chr((ord(ch) - 97 + k) % 26 + 97))
        elif "0" <= ch <= "9":
            out.append(chr((ord(ch) - 48 + k) % 10 + 48))
        else:
            out.append(ch)
    return "".join(out).encode("utf-8")


def generate(run_seed, tier):
    wl, sc, fl, cf = (stream(run_seed, n) for n in ("workload", "schedule", "faults", "config"))
    names = wl.sample(PATTERNS, wl.randint(1, 3))
    patterns = {"p%d" % i: corpus.recipe_of(n) for i, n in enumerate(names)}
    nfiles = wl.randint(1, 3)
    paths = wl.sample(PATHS, nfiles)
    files, classes, exact_for = {}, {}, {}
    directed = set()
    enabled_classes = wl.sample(CONTENT_CLASSES, wl.randint(2, 5))
    if wl.random() < (0.04 if tier == "quick" else 0.08):
        enabled_classes = [wl.choice(HUGE_CLASSES)]
    for p in paths:
        nver = 1 if wl.random() < 0.55 else wl.randint(2, 3)
        cls = wl.choice(enabled_classes)
        classes[p] = cls
        vs = []
        for v in range(nver):
            if v > 0 and wl.random() < 0.45:
                vs.append(same_length_variant(wl, vs[-1]))
            else:
                del LAST_EXACT[:]
                vs.append(make_content(wl, names, cls if (v == 0 or wl.random() < 0.7) else wl.choice(enabled_classes), tier))
                if LAST_EXACT:
                    exact_for.setdefault(p, "p%d" % names.index(LAST_EXACT[-1]))
        files[p] = [x.hex() for x in vs]
    fault_kinds = fl.sample(["short", "split", "EINTR", "EIO", "ENOENT", "EACCES", "EISDIR"], fl.randint(0, 4))
    fault_rate = fl.choice([0.0, 0.3, 0.6]) if fault_kinds else 0.0
    enabled_methods = wl.sample(METHODS, wl.randint(3, 10))

    def faults_for():
        out = []
        if fl.random() >= fault_rate:
            return out
        for _ in range(fl.randint(1, 3)):
            k = fl.choice(fault_kinds)
            if k in ("ENOENT", "EACCES", "EISDIR") and fl.random() < 0.5:
                continue
            if k in ("ENOENT", "EACCES", "EISDIR"):
                out.append({"seam": "open", "kind": k})
            else:
                f = {"seam": "raw_read", "kind": k, "call": fl.choice([1, 1, 1, 2, 2, 3, 4, 6])}
                if k == "short":
                    f["n"] = fl.choice([1, 1, 2, 3, 7])
                out.append(f)
        return out

    ntasks = wl.randint(1, 3)
    tasks, hcount = [], 0
    cache_rate = wl.choice([0.0, 0.15, 0.4])
    for t in range(ntasks):
        ops = []
        for _ in range(wl.randint(1, 8)):
            m = wl.choice(enabled_methods)
            pid = wl.choice(sorted(patterns))
            if wl.random() < cache_rate:
                ops.append(wl.choice([{"op": "compile", "pattern": pid}, {"op": "gcp", "pattern": pid, "discard": False},
                                      {"op": "gcp", "pattern": pid, "discard": True}]))
            path = wl.choice(paths)
            kw = kw_for(wl, m)
            if "with_context" in m and wl.random() < 0.15:
                try:
                    tl = len(bytes.fromhex(files[path][wl.randrange(len(files[path]))]).decode("utf-8"))
                    if tl <= 1500:           # (every match carries a window: keep the result small)
                        kw[wl.choice(["n_left", "n_right"])] = max(0, tl + wl.choice([-1, 0, 1]))   # window == text length
                except UnicodeDecodeError:
                    pass
            if m.startswith("iterate_"):
                h = "h%d" % hcount
                hcount += 1
                ops.append({"op": "iter_open", "h": h, "method": m, "pattern": pid, "path": path, "kw": kw,
                            "faults": faults_for()})
                for _ in range(wl.randint(0, 3)):
                    ops.append({"op": "iter_next", "h": h})
                if wl.random() < 0.8:
                    ops.append({"op": "iter_drain", "h": h})
            else:
                ops.append({"op": "call", "method": m, "pattern": pid, "path": path, "kw": kw,
                            "faults": faults_for()})
        tasks.append(ops)
    # directed history "read, rewrite in place with the same size at the same instant, read again" - the case every
    # stat-validated cache gets wrong; always used for the block-sized files, sometimes for the others
    for p in paths:
        big = len(files[p][0]) >= 2 * 60000
        if (big and wl.random() < 0.7) or wl.random() < 0.04:
            v0 = bytes.fromhex(files[p][0])
            files[p] = [files[p][0], same_length_variant(wl, v0).hex()]
            pid = wl.choice(sorted(patterns))
            m1, m2 = wl.choice(GETTERS + OTHERS), wl.choice(GETTERS + OTHERS)
            seq = [{"op": "call", "method": m1, "pattern": pid, "path": p, "kw": kw_for(wl, m1, allow_bad=False), "faults": []},
                   {"op": "fs_write", "path": p, "version": 1},
                   {"op": "call", "method": m2, "pattern": wl.choice(sorted(patterns)), "path": p, "kw": kw_for(wl, m2, allow_bad=False),
                    "faults": []}]
            tasks.append(seq)
            directed.add(len(tasks) - 1)
    # a file that is one whole match of a pattern: ask that pattern about it (whole-text matches are where prefix /
    # block shortcuts go wrong)
    for p, pid in sorted(exact_for.items()):
        t = wl.randrange(len(tasks))
        for m in wl.sample(["is_exact_match", "has_match", "get_matches_and_pos", "split_by_match", "get_matches_with_context"], 3):
            tasks[t].insert(wl.randint(0, len(tasks[t])), {"op": "call", "method": m, "pattern": pid, "path": p, "kw": {}, "faults": []})
    # writer task
    wops = []
    directed_paths = {ops[1]["path"] for i, ops in enumerate(tasks) if i in directed}
    for p in paths:
        if p in directed_paths:
            continue
        for v in range(1, len(files[p])):
            wops.append({"op": "fs_write", "path": p, "version": v})
    if wops:
        wl.shuffle(wops)
        tasks.append(wops)
    dt_rate = sc.choice([0.0, 0.2, 0.6])
    for ti, ops in enumerate(tasks):
        if ti in directed:
            continue                       # same instant: mtime does not move
        for op in ops:
            if sc.random() < dt_rate:
                op["dt"] = sc.choice([0.001, 0.2, 0.5, 1.0, 3.0, 60.0])
    total = sum(len(t) for t in tasks)
    schedule = [sc.randrange(len(tasks)) for _ in range(total)] if sc.random() < 0.85 else []
    return {
        "property": PROPERTY,
        "config": {"buffer_size": cf.choice([1, 2, 3, 7, 16, 4096, 8192])},
        "world": {"patterns": patterns, "files": files, "pattern_names": names, "content_classes": classes},
        "tasks": tasks, "schedule": schedule,
    }


# ---------------------------------------------------------------------------------------


def outcome(fn):
    try:
        return ("ok", fn())
    except RecursionError:
        raise
    except Exception as e:                               # noqa: BLE001
        return ("exc", type(e).__name__, isinstance(e, OSError))


def drain(gen_fn):
    """Outcome of creating and fully draining a generator: (items, exc_name|None)."""
    items = []
    try:
        for x in gen_fn():
            items.append(x)
            if len(items) > 200000:
                raise HarnessError("runaway iterator")
    except HarnessError:
        raise
    except Exception as e:                               # noqa: BLE001
        return (items, type(e).__name__)
    return (items, None)


def expected_size_exception(kw):
    """Documented exceptions for window sizes; returns a set of acceptable names (empty = none)."""
    acc = set()
    for k in ("n_left", "n_right"):
        if k in kw:
            v = kw[k]
            if not isinstance(v, int) or isinstance(v, bool):
                acc.add("InvalidArgumentTypeException")
            elif v < 0:
                acc.add("InvalidArgumentValueException")
    return acc


def windows_model(pattern_text, text, kw):
    nl, nr = kw.get("n_left", 5), kw.get("n_right", 5)
    return [text[max(m.start() - nl, 0):min(m.end() + nr, len(text))]
            for m in re.finditer(pattern_text, text, FLAGS)]


class Handle:
    def __init__(self, gen, method, pid, path, kw, hist_idx, pending):
        self.gen, self.method, self.pid, self.path, self.kw = gen, method, pid, path, kw
        self.hist_idx = hist_idx
        self.pending = pending
        self.items = []
        self.done = False
        self.exc = None
        self.hard = False
        self.first_advanced_step = None
        self.open_step = None


def execute(plan, inst, keep_log=False):
    """Runs a plan against the loaded pregex instance.  Returns a result dict; raises
    Violation (oracle failed) or HarnessError."""
    log = EventLog(keep_log)
    world = plan["world"]
    fs = simfs.SimFS({p: [bytes.fromhex(v) for v in vs] for p, vs in world["files"].items()},
                     plan["config"].get("buffer_size", 8192))
    history = {p: [0] for p in fs.files}
    pats = {}
    for pid, r in world["patterns"].items():
        try:
            pats[pid] = recipes.build(r, inst.ns)
        except Exception as e:                           # noqa: BLE001
            pats[pid] = None
            log.add("build_failed", pid, type(e).__name__)
    handles = {}
    stats = {"non_utf8_calls": 0, "calls": 0, "iter_steps": 0, "lazy_deferred": 0, "version_changed_before_read": 0,
             "inflight_interleavings": 0, "seam_bypassed": 0, "bad_size_checked": 0, "windows_checked": 0,
             "hard_fault_raised": 0, "hard_fault_returned": 0, "handles_left_open": 0}
    cover = set()
    step_no = [0]
    last_task = [None]

    pre_mod = inst.pre
    saved = {}

    import builtins
    import io
    import os

    def install():
        saved["pre"] = pre_mod.__dict__.get("open", None)
        pre_mod.open = fs.open
        saved["b"], saved["io"] = builtins.open, io.open
        builtins.open = fs.open
        io.open = fs.open
        saved["stat"], saved["lstat"] = os.stat, os.lstat
        os.stat = os.lstat = fs.stat

    def uninstall():
        if saved.get("pre") is None:
            pre_mod.__dict__.pop("open", None)
        else:
            pre_mod.open = saved["pre"]
        builtins.open, io.open = saved["b"], saved["io"]
        os.stat, os.lstat = saved["stat"], saved["lstat"]

    def valid_utf8(path, versions):
        for v in versions:
            try:
                fs.files[path][v].decode("utf-8")
            except UnicodeDecodeError:
                return False
        return True

    def texts_for(path, versions):
        out = []
        for v in versions:
            for t in simfs.reference_texts(fs.files[path][v]):
                if t not in out:
                    out.append(t)
        return out

    def cov(method, path, fired_before):
        cls = world.get("content_classes", {}).get(path, "?")
        fired = sorted(k for k, v in fs.fault_fired.items() if v > fired_before.get(k, 0))
        bs = fs.buffer_size
        cover.add((method, cls, ",".join(fired) or "-", "1" if bs == 1 else ("small" if bs < 100 else "default")))

    def check_call(op):
        p = pats.get(op["pattern"])
        if p is None or op["path"] not in fs.files:
            log.add("skip", op["op"])
            return
        method, path, kw = op["method"], op["path"], dict(op.get("kw") or {})
        m = getattr(p, method)
        stats["calls"] += 1
        fired_before = dict(fs.fault_fired)
        fs.arm(op.get("faults"))
        fs.hard_fault, fs.engaged = False, 0
        install()
        try:
            actual = outcome(lambda: m(path, is_path=True, **kw))
        finally:
            uninstall()
            fs.disarm()
        hard = fs.hard_fault
        if not valid_utf8(path, [fs.current[path]]):
            stats["non_utf8_calls"] += 1
            log.add("call", method, op["pattern"], path, kw, "non-utf8 file: outcome not judged")
            return
        texts = texts_for(path, [fs.current[path]])
        expected = [outcome(lambda t=t: m(t, **kw)) for t in texts]
        cov(method, path, fired_before)
        log.add("call", method, op["pattern"], path, kw, actual[0], actual[1] if actual[0] == "exc" else _dig(actual[1]))
        if actual[0] == "exc" and hard:
            # narrow relaxation: while an injected hard I/O fault fired, the call may fail (with OSError or whatever the
            # library turns it into) - it may never return a wrong value
            stats["hard_fault_raised"] += 1
            return
        if actual[0] == "exc" and actual[1] == "InterruptedError" and "EINTR" in fs.fault_fired:
            # EINTR is injected at the raw layer, where real file objects retry in C; a reader that works on the raw
            # object directly would see it only in simulation - not judged
            stats["eintr_propagated"] = stats.get("eintr_propagated", 0) + 1
            return
        if hard and actual[0] == "ok":
            stats["hard_fault_returned"] += 1
        if actual[0] == "exc" and actual[2] and fs.engaged == 0 and not hard:
            stats["seam_bypassed"] += 1
            raise HarnessError("%s raised %s without reaching the simulated open()" % (method, actual[1]))
        if not any(_same(actual, e) for e in expected):
            raise Violation("C14.path_equals_text",
                            "%s(%r, is_path=True, %s) -> %s but on the file's content -> %s"
                            % (method, path, _kwtxt(kw), _show(actual), _show(expected[0])))
        if method == "get_matches_with_context":
            check_windows(p, method, kw, texts, actual)

    def check_windows(p, method, kw, texts, actual):
        bad = expected_size_exception(kw)
        if bad:
            stats["bad_size_checked"] += 1
            if actual[0] != "exc" or actual[1] not in bad:
                raise Violation("C14.window_size_exception",
                                "%s(%s) -> %s, documented: %s" % (method, _kwtxt(kw), _show(actual), sorted(bad)))
            return
        if actual[0] == "exc":
            raise Violation("C14.window_size_exception",
                            "%s(%s) raised %s although the window sizes are valid" % (method, _kwtxt(kw), actual[1]))
        if actual[0] == "ok":
            stats["windows_checked"] += 1
            wins = [windows_model(str(p), t, kw) for t in texts]
            if list(actual[1]) not in wins:
                raise Violation("C14.window_formula",
                                "%s(%s) -> %s, formula gives %s" % (method, _kwtxt(kw), _show(actual), _show(("ok", wins[0]))))

    def advance(h, op_name, drain_all):
        """Advances a handle by one item (or to exhaustion) and checks prefixes."""
        if h.done:
            log.add(op_name, "finished")
            return
        fired_before = dict(fs.fault_fired)
        if h.first_advanced_step is None:
            h.first_advanced_step = step_no[0]
            if h.first_advanced_step > h.open_step + 1:
                stats["lazy_deferred"] += 1
            if len(history[h.path]) - 1 > h.hist_idx:
                stats["version_changed_before_read"] += 1
        fs.arm(h.pending)
        fs.hard_fault, fs.engaged = False, 0
        install()
        try:
            while True:
                try:
                    h.items.append(next(h.gen))
                    stats["iter_steps"] += 1
                    if len(h.items) > 200000:
                        raise HarnessError("runaway iterator")
                except StopIteration:
                    h.done = True
                except HarnessError:
                    raise
                except Exception as e:                   # noqa: BLE001
                    h.done, h.exc = True, (type(e).__name__, isinstance(e, OSError))
                if h.done or not drain_all:
                    break
        finally:
            uninstall()
            if fs.engaged:
                h.pending = []
            fs.disarm()
        h.hard = h.hard or fs.hard_fault
        cov(h.method, h.path, fired_before)
        log.add(op_name, h.method, len(h.items), h.done, h.exc[0] if h.exc else None, _dig(h.items))
        verify_handle(h)

    def verify_handle(h):
        p = pats[h.pid]
        m = getattr(p, h.method)
        if h.exc and h.hard:
            stats["hard_fault_raised"] += 1
            return
        if h.exc and h.exc[0] == "InterruptedError" and "EINTR" in fs.fault_fired:
            stats["eintr_propagated"] = stats.get("eintr_propagated", 0) + 1
            return
        versions = history[h.path][h.hist_idx:]
        if h.exc and h.exc[1] and not h.hard and valid_utf8(h.path, versions):
            raise HarnessError("%s raised %s with no fault armed" % (h.method, h.exc[0]))
        if not valid_utf8(h.path, versions):
            stats["non_utf8_calls"] += 1
            return
        texts = texts_for(h.path, versions)
        cands = [drain(lambda t=t: m(t, **h.kw)) for t in texts]
        ok = False
        for items, exc in cands:
            if h.done:
                if h.items == items and (h.exc[0] if h.exc else None) == exc:
                    ok = True
            elif h.items == items[:len(h.items)]:
                ok = True
        if not ok:
            raise Violation("C14.path_equals_text",
                            "%s(%r, is_path=True, %s) yielded %s%s but on the file's content -> %s"
                            % (h.method, h.path, _kwtxt(h.kw), _show(("ok", h.items)),
                               " then raised %s" % h.exc[0] if h.exc else (" (exhausted)" if h.done else " (so far)"),
                               _show(("ok", cands[0][0])) + (" then %s" % cands[0][1] if cands[0][1] else "")))
        if h.done and h.method == "iterate_matches_with_context":
            bad = expected_size_exception(h.kw)
            if bad:
                stats["bad_size_checked"] += 1
                if not h.exc or h.exc[0] not in bad or h.items:
                    raise Violation("C14.window_size_exception",
                                    "%s(%s) -> %s / %s, documented: %s" % (h.method, _kwtxt(h.kw), h.items[:3], h.exc, sorted(bad)))
            elif h.exc:
                raise Violation("C14.window_size_exception",
                                "%s(%s) raised %s although the window sizes are valid" % (h.method, _kwtxt(h.kw), h.exc[0]))
            elif not h.exc:
                stats["windows_checked"] += 1
                if h.items not in [windows_model(str(p), t, h.kw) for t in texts]:
                    raise Violation("C14.window_formula", "%s(%s) -> %s" % (h.method, _kwtxt(h.kw), _show(("ok", h.items))))

    def step(t, idx, op):
        step_no[0] += 1
        kind = op["op"]
        fs.now += op.get("dt", 0)
        stats["sim_clock_seconds"] = stats.get("sim_clock_seconds", 0) + op.get("dt", 0)
        if last_task[0] is not None and last_task[0] != t and any(
                (not h.done) and h.first_advanced_step is not None for h in handles.values()):
            stats["inflight_interleavings"] += 1
        last_task[0] = t
        if kind == "call":
            check_call(op)
        elif kind == "iter_open":
            p = pats.get(op["pattern"])
            if p is None or op["path"] not in fs.files:
                log.add("skip", kind)
                return
            kw = dict(op.get("kw") or {})
            fs.arm(op.get("faults"))
            fs.hard_fault, fs.engaged = False, 0
            install()
            try:
                try:
                    gen = getattr(p, op["method"])(op["path"], is_path=True, **kw)
                    exc = None
                except Exception as e:                   # noqa: BLE001
                    gen, exc = iter(()), (type(e).__name__, isinstance(e, OSError))
            finally:
                uninstall()
                pending = [] if fs.engaged else list(op.get("faults") or [])
                fs.disarm()
            h = Handle(gen, op["method"], op["pattern"], op["path"], kw, len(history[op["path"]]) - 1, pending)
            h.open_step = step_no[0]
            h.hard = fs.hard_fault
            if exc:
                h.done, h.exc = True, exc
            handles[op["h"]] = h
            log.add("iter_open", op["h"], op["method"], op["pattern"], op["path"], kw, exc[0] if exc else None)
            if exc:
                verify_handle(h)
        elif kind in ("iter_next", "iter_drain"):
            h = handles.get(op["h"])
            if h is None:
                log.add("skip", kind)
                return
            advance(h, kind, kind == "iter_drain")
        elif kind in ("compile", "gcp"):
            p = pats.get(op["pattern"])
            if p is None:
                log.add("skip", kind)
                return
            if kind == "compile":
                p.compile()
            else:
                p.get_compiled_pattern(discard_after=op["discard"])
            stats["cache_ops"] = stats.get("cache_ops", 0) + 1
            log.add(kind, op["pattern"], op.get("discard"))
        elif kind == "fs_write":
            if op["path"] in fs.files and op["version"] < len(fs.files[op["path"]]):
                fs.write(op["path"], op["version"])
                history[op["path"]].append(op["version"])
                log.add("fs_write", op["path"], op["version"])
            else:
                log.add("skip", kind)
        else:
            raise HarnessError("unknown op %r" % kind)

    s = sched.run(plan, step)
    for h in handles.values():
        if not h.done:
            h.gen.close() if hasattr(h.gen, "close") else None
    stats["handles_left_open"] = fs.open_handles
    stats.update({"steps": s["steps"], "switches": s["switches"], "opens": fs.stats["opens"],
                  "raw_reads": fs.stats["raw_reads"], "bytes": fs.stats["bytes"],
                  "mb_boundary": fs.stats["mb_boundary"]})
    nontrivial = bool(fs.fault_fired) or stats["inflight_interleavings"] > 0 or \
        stats["mb_boundary"] > 0 or stats["version_changed_before_read"] > 0
    return {"digest": log.digest(), "stats": stats, "faults_fired": dict(fs.fault_fired),
            "cover": sorted("|".join(c) for c in cover), "nontrivial": nontrivial,
            "log": log.lines}


def _dig(x):
    from sim.kernel import digest_of
    return digest_of(x)


def _same(a, b):
    if a[0] != b[0]:
        return False
    if a[0] == "exc":
        return a[1] == b[1]
    return a[1] == b[1] and type(a[1]) is type(b[1])


def _show(o, n=160):
    s = repr(o[1]) if o[0] == "ok" else "raise " + o[1]
    return s if len(s) <= n else s[:n] + "..."


def _kwtxt(kw):
    return ", ".join("%s=%r" % kv for kv in sorted(kw.items()))


# --- shrinking hints -------------------------------------------------------------------

def shrink_candidates(plan):
    """Yields plans that are simpler in their arguments (file contents, kw, buffer size)."""
    import copy
    files = plan["world"]["files"]
    # sequential history with the file rewrites first (then drop the ones that are not needed)
    if plan.get("schedule") or any(op["op"] == "fs_write" for ops in plan["tasks"][1:] for op in ops):
        writes = [op for ops in plan["tasks"] for op in ops if op["op"] == "fs_write"]
        rest = [[op for op in ops if op["op"] != "fs_write"] for ops in plan["tasks"]]
        q = copy.deepcopy(plan)
        q["tasks"] = [writes] + [t for t in rest if t]
        q["schedule"] = []
        yield q
    used_f = {op.get("path") for ops in plan["tasks"] for op in ops if "path" in op}
    used_p = {op.get("pattern") for ops in plan["tasks"] for op in ops}
    if set(files) - used_f or set(plan["world"]["patterns"]) - used_p:
        q = copy.deepcopy(plan)
        q["world"]["files"] = {k: v for k, v in files.items() if k in used_f}
        q["world"]["patterns"] = {k: v for k, v in plan["world"]["patterns"].items() if k in used_p}
        q["world"]["content_classes"] = {k: v for k, v in plan["world"].get("content_classes", {}).items() if k in used_f}
        yield q
    for p in sorted(files):
        for vi, hexv in enumerate(files[p]):
            try:
                text = bytes.fromhex(hexv).decode("utf-8")
            except UnicodeDecodeError:
                continue
            n = len(text)
            chunk = max(1, n // 2)
            floor = max(1, n // 64)              # big files: coarse cuts only (each candidate is a full re-execution)
            while chunk >= floor and n > 0:
                i = 0
                while i < n:
                    cand = text[:i] + text[i + chunk:]
                    q = copy.deepcopy(plan)
                    q["world"]["files"][p][vi] = cand.encode("utf-8").hex()
                    yield q
                    i += chunk
                if chunk == 1 or chunk // 2 < floor:
                    break
                chunk //= 2
    for ti, ops in enumerate(plan["tasks"]):
        for oi, op in enumerate(ops):
            for k in sorted(op.get("kw") or {}):
                q = copy.deepcopy(plan)
                del q["tasks"][ti][oi]["kw"][k]
                yield q
    if plan["config"].get("buffer_size") != 8192:
        q = copy.deepcopy(plan)
        q["config"]["buffer_size"] = 8192
        yield q
    pats = plan["world"]["patterns"]
    for pid in sorted(pats):
        for simple in (["new", "OneOrMore", ["named", "AnyDigit"]], ["lit", "a"]):
            if pats[pid] != simple:
                q = copy.deepcopy(plan)
                q["world"]["patterns"][pid] = simple
                yield q


EVIDENCE = {
    "rule": "Runs are generated from (VERIF_SEED, 'C14', run index): 1-3 corpus patterns, 1-3 simulated files "
            "(content classes plain/multiline/crlf/cr/bom/nofinalnl/empty/multibyte/large, 1-3 versions), 1-3 client "
            "tasks calling the 19 is_path methods plus a writer task, a seeded schedule, and faults attached to the ops "
            "that open files. Distinct = distinct event digest (SHA-256 over the canonical event log). Non-trivial = at "
            "least one fault actually fired, or tasks were interleaved while a lazy iterator was in flight, or a raw chunk "
            "boundary fell inside a multi-byte UTF-8 sequence, or a file version changed between iterator creation and "
            "its first read.",
    "measure": "(method, content class of the file, fault kinds that fired during the call, buffer-size class)",
    "probes": ["non_utf8_calls", "cache_ops", "lazy_deferred", "version_changed_before_read", "inflight_interleavings", "mb_boundary",
               "windows_checked", "bad_size_checked", "hard_fault_raised"],
    "fault_kinds": ["short_read", "split_utf8", "EINTR", "EIO", "ENOENT", "EACCES", "EISDIR"],
    "components": {
        "real": ["all of pregex (from the source tree under test)", "re", "io.TextIOWrapper", "io.BufferedReader",
                 "UTF-8 decoding and newline translation"],
        "stub": ["raw byte source behind open() (SimRaw)", "os.stat for simulated paths (size / mtime from the simulated clock)",
                 "file replacement by the writer task"],
    },
    "assumptions": [
        "sampling: a clean batch is evidence, not proof",
        "reference text = independent TextIOWrapper(BytesIO(data), encoding='utf-8').read(); for content with CR or a BOM the "
        "untranslated / BOM-stripped readings are accepted as well",
        "while an injected EIO/ENOENT/EACCES/EISDIR fired a call may raise (any exception); a returned value must still equal the "
        "fault-free value; an InterruptedError that reaches the caller is not judged (real raw files retry EINTR in C)",
        "generators may read the file at creation or at first next(); any version current in between is accepted",
        "file access other than open()/io.open()/os.stat on the path escapes fault injection (reported as harness error)",
        "calls on a file that is not valid UTF-8 are executed but not judged (the property is about UTF-8 files); calls after them are",
    ],
}
