"""C06 - class constructors denote exactly the requested character sets, under every set
iteration order.  One constructor call per run; the only thing the simulator varies is the
order in which the class text is assembled (real hash seed + set-order keys)."""
from checks import classcommon as cc
from sim.kernel import stream

PROPERTY = "C06"
BAD = [5, None, 1.5, True, ["list", "a"], "ab", "", "\\a", "\\\\", "a-z", "\\d", ["lit", "ab"], ["empty"], ["lit", "a.b"]]


def generate(run_seed, tier):
    wl, cf = stream(run_seed, "workload"), stream(run_seed, "order")
    pal = cc.palette(wl)
    k = wl.random()
    neg = wl.random() < 0.5
    pre = "AnyBut" if neg else "Any"
    if k < 0.40:
        n = wl.choice([1, 1, 2, 3, 4, 5, 6, 8])
        args = [cc.arg(wl, pal, 0.2) for _ in range(n)]
        if n > 1 and wl.random() < 0.3:
            args[wl.randrange(n)] = args[wl.randrange(n)]             # duplicate
        r = [pre + "From"] + args
    elif k < 0.65:
        a, b = cc.arg(wl, pal, 0.2), cc.arg(wl, pal, 0.2)
        if cc.char_of(a) > cc.char_of(b):
            a, b = b, a
        r = [pre + "Between", a, b]                                    # a == b -> InvalidRangeException
    elif k < 0.73:
        r = ["named", wl.choice(cc.NAMED)] + ([True] if wl.random() < 0.1 else [])
        if r[1][-8:] != "WordChar":
            r = r[:2]
    elif k < 0.78:
        r = ["tok", wl.choice(cc.TOKS)]
    elif k < 0.80:
        r = ["Any"] if wl.random() < 0.2 else cc.shorthand_leaf(wl, neg)
    elif k < 0.90:
        n = wl.randint(0, 3)
        args = [cc.arg(wl, pal, 0.2) for _ in range(n)]
        if n:
            args[wl.randrange(n)] = wl.choice(BAD)
        r = [pre + "From"] + args
    else:
        a, b = cc.arg(wl, pal, 0.2), cc.arg(wl, pal, 0.2)
        c = wl.random()
        if c < 0.4:
            a = wl.choice(BAD)
        elif c < 0.8:
            b = wl.choice(BAD)
        elif cc.char_of(a) < cc.char_of(b):
            a, b = b, a                                                 # start > end
        r = [pre + "Between", a, b]
    nkeys = 6 if tier == "quick" else 10
    plan = {"property": PROPERTY, "program": r, "config": {"order_keys": cc.order_keys(cf, nkeys)}}
    if wl.random() < 0.3:
        # a history in the same module instance: earlier, valid class expressions (a constructor must not
        # depend on what was built before it)
        from checks import c07
        hpal = pal + list("0123456789")
        lets, mpool = [], []
        for _ in range(wl.randint(1, 3)):
            cand = c07.expr(wl, wl.choice([0, 1, 1]), False, hpal)
            if wl.random() < 0.5:
                cand = ["or", cand, ["AnyFrom", wl.choice("0123456789")]]
            try:
                mpool.append(cc.cm.model_eval(cand, mpool))
            except cc.cm.ModelExc:
                continue
            lets.append(cand)
        if lets:
            plan["lets"] = lets
            digits = [int(ch) for ch in "0123456789" if any(ch in cc.show(x) for x in lets)]
            if digits and wl.random() < 0.6:
                bad = wl.choice(digits)
                plan["program"] = wl.choice([[pre + "From", bad], [pre + "From", wl.choice(pal), bad],
                                             [pre + "Between", bad, wl.choice(pal)]])
    return plan


def execute(plan, inst, keep_log=False):
    res = cc.run_recipe(plan, inst, PROPERTY, keep_log)
    r = plan["program"]
    nargs = len(r) - 1
    res["cover"] = ["|".join((r[0] if r[0] != "named" else r[1], str(min(nargs, 5)),
                              res["outcome"][:4] if not res["outcome"].startswith("exc:") else res["outcome"],
                              str(min(res["texts"], 4))))]
    return res


shrink_candidates = cc.shrink_candidates

EVIDENCE = {
    "rule": "Each run is one constructor call: AnyFrom/AnyButFrom with 1-8 characters or tokens (duplicates included), "
            "AnyBetween/AnyButBetween, a named Any*/AnyBut* class, a token, Any, or one of the documented invalid argument "
            "shapes (non-string, multi-character or empty string, start >= end, no arguments); characters come from the same "
            "metacharacter-rich palette as C07. It is evaluated under the worker's real hash order (every run index under >= 2 "
            "PYTHONHASHSEEDs) and under 6/10 order keys of the set seam, against the code-point-set model over all 0x110000 "
            "code points. Distinct = distinct event digest; non-trivial = a shim configuration iterated some set in a "
            "non-canonical order.",
    "measure": "(constructor, number of arguments, outcome class, number of distinct emitted texts across configurations)",
    "probes": ["lets", "shim_noncanonical", "set_orders_seen", "exceptions", "classes", "full_scans"],
    "fault_kinds": [],
    "components": {
        "real": ["all of pregex", "re"],
        "stub": ["iteration order of the sets built in pregex.core.classes in shim configurations"],
    },
    "assumptions": [
        "a constructor is one op: the simulator only varies the order in which __process/__chars_to_ranges walk their sets; "
        "inputs are a seeded sample, not an enumeration",
        "code points that only the Unicode-aware meaning of \\d \\s \\w adds are not compared when that shorthand occurs in the emitted text",
    ],
}


SYSTEMATIC = cc.systematic_constructors()


def generate_indexed(index, run_seed, tier):
    """The first len(SYSTEMATIC) run indices are an enumerated family of boundary cases; the rest is seeded sampling."""
    if index < len(SYSTEMATIC):
        cf = stream(run_seed, "order")
        entry = SYSTEMATIC[index]
        plan = {"property": PROPERTY, "program": entry["program"] if isinstance(entry, dict) else entry,
                "config": {"order_keys": cc.order_keys(cf, 6 if tier == "quick" else 10), "systematic": True}}
        if isinstance(entry, dict) and entry.get("lets"):
            plan["lets"] = entry["lets"]
        return plan
    return generate(run_seed, tier)
