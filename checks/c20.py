"""C20 - Pregex objects are immutable values; results do not depend on history.

System under simulation: a growing pool of Pregex objects built from each other by 1-3
interleaved tasks (class / method / operator spellings, heavy sharing, the documented
"returns itself" shortcuts), used in between (compile, get_compiled_pattern, matching, lazy
iterators, purge).
Oracles: (1) snapshot invariant of every pool object after every step; (2) rebuilding every
recipe tree-expanded, in reverse order, in a fresh module instance gives the same outcome
class and an equivalent pattern; (3) the same plan under another real PYTHONHASHSEED gives
the same outcome classes and fingerprints (compared by the orchestrator across replicas).
"""
import re

from checks import classcommon as cc
from sim import classmodel as cm
from sim import loader, recipes, rexcost, sched, simid, simset
from sim.kernel import EventLog, HarnessError, Violation, digest_of, stream

PROPERTY = "C20"
FLAGS = re.MULTILINE | re.DOTALL
SHRINK_SECONDS = 40.0
SHRINK_RUNS = 300

WORDS = ["a", "ab", "abc", "x", "7", "42", "a.b", "(", "[", "]", "a|b", "^", "$", "\\", "a\\b", "+", "?", "{2}",
         " ", "\n", "é", "λ", "😀", "'\"", "-", "/", "foo", "Bar", "_", "a-z"]
NAMED_REG = ["AnyLetter", "AnyDigit", "AnyLowercaseLetter", "AnyUppercaseLetter", "AnyWordChar", "AnyPunctuation",
             "AnyWhitespace", "AnyGreekLetter", "AnyGermanLetter"]
NAMED_NEG = ["AnyButLetter", "AnyButDigit", "AnyButWhitespace", "AnyButWordChar", "AnyButPunctuation"]
TOKS = ["Newline", "Space", "Tab", "Backslash", "Dollar", "Euro", "Copyright"]
META_TEXTS = ["1999", "3.14159", "-42", "+7", "0", "255", "1/3/1996", "1/3/19", "01/03/1996", "12-31-2024", "2024/02/29", "9-9-99",
              "john.doe@mail.example.com", "a@b.co", "http://www.example.com/x?y=1", "https://sub.domain.org", "192.168.0.1",
              "256.1.1.1", "2001:db8::ff00:42:8329", "FFFF:0:0:0:0:0:0:1", "unpredicted", "walking", "ab", "xAby", "0x1F", "1010", "zz9",
              "hello world", "  \t", "9", "8", "19"]
METHODS = ["has_match", "is_exact_match", "get_matches", "get_matches_and_pos", "get_captures"]


# ---------------------------------------------------------------------------------------
# generation
# ---------------------------------------------------------------------------------------

UNBOUNDED_Q = {"Indefinite", "OneOrMore", "AtLeast", "indefinite", "one_or_more", "at_least"}
BOUNDED_Q = {"Optional", "Exactly", "AtMost", "AtLeastAtMost", "optional", "exactly", "at_most", "at_least_at_most"}
META_UB = {"Text": 1, "Whitespace": 1, "NonWhitespace": 1, "Word": 1, "WordContains": 2, "WordStartsWith": 1, "WordEndsWith": 1,
           "Numeral": 1, "Integer": 1, "PositiveInteger": 1, "NegativeInteger": 1, "UnsignedInteger": 1, "Decimal": 2,
           "PositiveDecimal": 2, "NegativeDecimal": 2, "UnsignedDecimal": 2, "Email": 3, "HttpUrl": 3, "IPv6": 1}
UB_LIMIT = 4


def ambiguous(r, ub):
    """True if the recipe contains a variable-width repetition, an alternation or a meta pattern: repeating such a pattern
    without an upper bound can make a failing match exponential ((?:a|a)+, (?:a{,2}a{,2})+)."""
    if not isinstance(r, list) or not r:
        return False
    h = r[0]
    if h == "ref":
        return ub[r[1]] < 0 or ub[r[1]] > 0
    if h in ("lit", "raw", "tok", "chr", "named", "empty", "Any", "AnyFrom", "AnyButFrom", "AnyBetween", "AnyButBetween"):
        return False
    if h in ("new", "call"):
        name = r[1]
        if name in META_UB or name in UNBOUNDED_Q or name in ("Either", "either", "Date", "IPv4", "Conditional"):
            return True
        if name in BOUNDED_Q and name not in ("Exactly", "exactly"):
            return True
    return any(ambiguous(x, ub) for x in r[1:] if isinstance(x, list))


def ub_of(r, ub):
    v = _ub_of(r, [abs(x) for x in ub], ub)
    if v == 0 and ambiguous(r, ub):
        return -1                  # no unbounded repetition, but variable width / alternation inside
    return v


def _ub_of(r, ub, raw):
    """Static estimate of how many unbounded repetitions a recipe strings together (nested ones count as 'too many'):
    matching cost on a failing text grows like C(len(text), estimate), so the generator keeps it small.  This bounds the
    *workload*, it judges nothing."""
    if not isinstance(r, list) or not r:
        return 0
    h = r[0]
    if h == "ref":
        return ub[r[1]]
    if h in ("lit", "raw", "tok", "chr", "named", "empty", "Any", "AnyFrom", "AnyButFrom", "AnyBetween", "AnyButBetween"):
        return 0
    args = [x for x in r[2:] if not isinstance(x, dict)] if h in ("new", "call", "op") else r[1:]
    sub = [_ub_of(x, ub, raw) for x in args if isinstance(x, list)]
    total = sum(sub)
    if h in ("new", "call"):
        name = r[1]
        if name in META_UB:
            return META_UB[name]
        if name in UNBOUNDED_Q or (name in ("AtMost", "at_most", "AtLeastAtMost", "at_least_at_most") and None in args):
            return 99 if (total > 0 or any(ambiguous(x, raw) for x in args if isinstance(x, list))) else 1
        if name in BOUNDED_Q:
            nums = [x for x in args if isinstance(x, int) and not isinstance(x, bool)]
            return total * max([1] + nums)
        if name in ("Enclose", "enclose", "EnclosedBy", "enclosed_by", "NotEnclosedBy", "not_enclosed_by"):
            return total + (sub[-1] if sub else 0)
        return total
    if h == "op":
        if r[1] == "*":
            nums = [x for x in r[2:] if isinstance(x, int) and not isinstance(x, bool)]
            return total * max([1] + nums)
        return total
    return total


class Gen:
    def __init__(self, rng):
        self.rng = rng
        self.ub = []               # unbounded-repetition estimate per pool id
        self.meta_mode = False
        self.kinds = []            # static kind guess per pool id
        self.used = []             # pool ids that were compiled / iterated (bias)
        self.focus = None
        self.sticky = 0            # number of following builds that must use the focus object
        self.pal = cc.palette(rng)

    def leaf(self):
        r = self.rng
        if self.meta_mode and r.random() < 0.7:
            return self.meta_leaf(), "general"
        k = r.random()
        if k < 0.30:
            return ["lit", r.choice(WORDS)], "lit"
        if k < 0.40:
            return ["tok", r.choice(TOKS)], "token"
        if k < 0.55:
            n = r.choice(NAMED_REG)
            return (["named", n, True] if n == "AnyWordChar" and r.random() < 0.4 else ["named", n]), "class+"
        if k < 0.62:
            n = r.choice(NAMED_NEG)
            return (["named", n, True] if n == "AnyButWordChar" and r.random() < 0.4 else ["named", n]), "class-"
        if k < 0.74:
            return ["AnyFrom"] + [r.choice(self.pal) for _ in range(r.randint(1, 4))], "class+"
        if k < 0.80:
            return ["AnyButFrom"] + [r.choice(self.pal) for _ in range(r.randint(1, 3))], "class-"
        if k < 0.86:
            a, b = sorted(r.sample(sorted(set(self.pal)), 2)) if len(set(self.pal)) > 1 else ("a", "c")
            return ["AnyBetween", a, b], "class+"
        if k < 0.90:
            return ["empty"], "empty"
        if k < 0.915:
            return ["Any"], "class+"
        if k < 0.94:
            return ["new", r.choice(["WordBoundary", "NonWordBoundary"])], "assertion"
        return self.meta_leaf(), "general"

    def meta_leaf(self):
        """A meta pattern (pregex.meta.essentials) with valid, varied parameters."""
        r = self.rng
        ext = {"is_extensible": True} if r.random() < 0.4 else {}
        a = r.choice([0, 1, 5, 10, 99])
        b = a + r.choice([0, 4, 90, 900, 5000])
        dfmts = ["d/m/yy", "d/m/yyyy", "dd/mm/yyyy", "mm-dd-yyyy", "yyyy/mm/dd", "d-m-yy", "yy/m/d", "dd/mm/yy"]
        k = r.randrange(16)
        if k == 0:
            return ["new", "Integer", a, b, dict(ext, include_sign=r.random() < 0.5)]
        if k == 1:
            return ["new", r.choice(["PositiveInteger", "NegativeInteger", "UnsignedInteger"]), max(a, 1), max(b, 2), ext or {"is_extensible": False}]
        if k == 2:
            return ["new", r.choice(["Decimal", "PositiveDecimal", "NegativeDecimal", "UnsignedDecimal"]), a, b, r.choice([0, 1, 2]),
                    r.choice([2, 3, None]), ext or {"is_extensible": False}]
        if k == 3:
            n_min = r.choice([1, 1, 2])
            return ["new", "Numeral", r.choice([2, 8, 10, 10, 16, 36]), n_min, r.choice([None, n_min, n_min + 3]), ext or {"is_extensible": False}]
        if k == 4:
            lo = r.choice([1, 2, 3])
            return ["new", "Word", lo, r.choice([None, lo, lo + 3]), dict(ext, is_global=r.random() < 0.5)]
        if k == 5:
            return ["new", r.choice(["WordContains", "WordStartsWith", "WordEndsWith"]),
                    r.choice(["ab", "x", ["list", "a", "ab"], ["list", "ing", "ed"], ["list", "un", "pre", "un"]]),
                    dict(ext, is_global=r.random() < 0.5)]
        if k in (6, 7):
            fm = r.sample(dfmts, r.randint(1, 4))
            if r.random() < 0.3:
                fm.append(fm[0])
            return ["new", "Date", ["list"] + fm if (len(fm) > 1 or r.random() < 0.5) else fm[0], ext or {"is_extensible": False}]
        if k == 8:
            return ["new", "Date"] + ([ext] if ext else [])
        if k == 9:
            return ["new", "IPv4"] + ([ext] if ext else [])
        if k == 10:
            return ["new", "IPv6"] + ([ext] if ext else [])
        if k in (11, 12):
            return ["new", "Email", dict(ext, capture_local_part=r.random() < 0.4, capture_domain=r.random() < 0.4)]
        if k in (13, 14):
            return ["new", "HttpUrl", dict(ext, capture_domain=r.random() < 0.5)]
        return ["new", r.choice(["Text", "Whitespace", "NonWhitespace"]), r.random() < 0.5]

    def ref(self, want=None):
        """A reference to a pool object (biased to recent and to used ones), or None."""
        n = len(self.kinds)
        ids = [i for i in range(n) if want is None or self.kinds[i] in want]
        if not ids:
            return None
        r = self.rng
        if self.used and r.random() < 0.25:
            c = [i for i in self.used if i in ids]
            if c:
                return ["ref", r.choice(c)]
        if r.random() < 0.5:
            return ["ref", ids[-1 - min(len(ids) - 1, int(r.random() * 3))]]
        return ["ref", r.choice(ids)]

    def operand(self, want=None, allow_str=False):
        r = self.rng
        x = self.ref(want) if r.random() < 0.75 else None
        if x is not None:
            return x
        if allow_str and r.random() < 0.3:
            return r.choice(WORDS)
        for _ in range(40):
            lf, kind = self.leaf()
            if want is None or kind in want:
                return lf
        if want and "class-" in want and "class+" not in want:
            return ["named", "AnyButDigit"]
        if want and ("class+" in want):
            return ["named", "AnyDigit"]
        return ["lit", "a"]

    def kind_of(self, x):
        if isinstance(x, list) and x and x[0] == "ref":
            return self.kinds[x[1]]
        return "general"

    def build(self):
        """Returns (recipe, kind guess) of a new object built from the pool."""
        r = self.rng
        if getattr(self, "pending", None) is not None:
            rec, self.pending = self.pending, None
            return rec
        k = r.random()
        if not self.kinds or k < (0.6 if self.meta_mode else 0.18):
            return self.leaf()
        if k > 0.975:
            # the empty pattern wrapped and then used: every wrapper of Empty must stay neutral
            e = r.choice([["empty"], "", ["lit", ""]])
            w = r.choice([["new", "Capture", e], ["new", "Group", e], ["new", "Capture", e, "ne"], ["new", "Optional", e],
                          ["new", "Concat", e, e], ["new", "Either", e], ["new", "MatchAtStart", e] if False else ["new", "Exactly", e, 3]])
            return r.choice([["new", "Optional", w], ["new", "Indefinite", w], ["new", "OneOrMore", w], ["op", "*", w, 3],
                             ["new", "AtLeastAtMost", w, 1, 3], ["op", "+", ["lit", "a"], w], ["new", "Capture", w],
                             ["new", "FollowedBy", ["lit", "a"], w]]), "general"
        a = self.operand()
        if self.focus is not None and (self.sticky > 0 or r.random() < 0.45):
            a = ["ref", self.focus]                       # keep working on one object: histories on a shared operand
            self.sticky = max(0, self.sticky - 1)
        elif a[0] == "ref" and r.random() < 0.5:
            self.focus = a[1]
        same = a if r.random() < 0.25 else None          # the same object twice in one call
        sp = r.choice(["class", "method", "op"])
        if k < 0.34:                                     # concat
            b = same or self.operand(allow_str=True)
            if r.random() < 0.12:
                b = ["empty"] if r.random() < 0.5 else ""  # shortcut: returns self
            if sp == "class":
                return ["new", "Concat", a, b] + ([self.operand()] if r.random() < 0.2 else []), "general"
            if sp == "method":
                return ["call", "concat", a, b] + ([{"on_right": False}] if r.random() < 0.3 else []), "general"
            if isinstance(b, str) and r.random() < 0.5:
                return ["op", "+", b, a], "general"
            return ["op", "+", a, b], "general"
        if k < 0.42:                                     # either
            b = same or self.operand(allow_str=True)
            if sp == "class":
                return ["new", "Either", a, b], "general"
            return ["call", "either", a, b] + ([{"on_right": False}] if r.random() < 0.3 else []), "general"
        if k < 0.46:                                     # enclose
            b = same or self.operand(allow_str=True)
            return (["new", "Enclose", a, b] if sp == "class" else ["call", "enclose", a, b]), "general"
        if k < 0.62:                                     # quantifiers
            q = r.choice(["Optional", "Indefinite", "OneOrMore", "Exactly", "AtLeast", "AtMost", "AtLeastAtMost", "mul"])
            greedy = [] if r.random() < 0.6 else [r.random() < 0.5]
            n = r.choice([0, 1, 1, 2, 3])
            m = n + r.choice([0, 1, 2])
            meth = {"Optional": "optional", "Indefinite": "indefinite", "OneOrMore": "one_or_more", "Exactly": "exactly",
                    "AtLeast": "at_least", "AtMost": "at_most", "AtLeastAtMost": "at_least_at_most"}
            if q == "mul":
                return (["op", "*", a, n] if r.random() < 0.6 else ["op", "*", n, a]), "general"
            args = {"Optional": greedy, "Indefinite": greedy, "OneOrMore": greedy, "Exactly": [n],
                    "AtLeast": [n] + greedy, "AtMost": [r.choice([n, None])] + greedy,
                    "AtLeastAtMost": [n, r.choice([m, m, None])] + greedy}[q]
            if sp == "class":
                return ["new", q, a] + args, "general"
            return ["call", meth[q], a] + args, "general"
        if k < 0.72:                                     # groups
            g = r.random()
            if g < 0.5:
                name = r.choice([None, None, "g1", "g2", "key"])
                if sp == "class":
                    return ["new", "Capture", a] + ([name] if name else []), "general"
                return ["call", "capture", a] + ([name] if name else []), "general"
            if g < 0.85:
                ci = [r.random() < 0.5] if r.random() < 0.5 else []
                if ci == [True] and a[0] == "ref":
                    self.focus, self.sticky = a[1], 2     # a flagged group of x, then x again as an operand
                return (["new", "Group", a] + ci if sp == "class" else ["call", "group", a] + ci), "general"
            if g < 0.93:
                return ["new", "Backreference", r.choice(["g1", "g2", 1, 7, 12])], "general"
            return ["new", "Conditional", r.choice(["g1", "key"]), a] + ([self.operand()] if r.random() < 0.5 else []), "general"
        if k < 0.80:                                     # anchors
            an = r.choice(["MatchAtStart", "MatchAtEnd", "MatchAtLineStart", "MatchAtLineEnd"])
            meth = {"MatchAtStart": "match_at_start", "MatchAtEnd": "match_at_end",
                    "MatchAtLineStart": "match_at_line_start", "MatchAtLineEnd": "match_at_line_end"}
            return (["new", an, a] if sp == "class" else ["call", meth[an], a]), "assertion"
        if k < 0.88:                                     # lookarounds
            la = r.choice(["FollowedBy", "NotFollowedBy", "PrecededBy", "NotPrecededBy", "EnclosedBy", "NotEnclosedBy"])
            meth = {"FollowedBy": "followed_by", "NotFollowedBy": "not_followed_by", "PrecededBy": "preceded_by",
                    "NotPrecededBy": "not_preceded_by", "EnclosedBy": "enclosed_by", "NotEnclosedBy": "not_enclosed_by"}
            b = same or self.operand(allow_str=True)
            if r.random() < 0.1:
                b = ""                                   # positive ones return self, negative ones raise
            return (["new", la, a, b] if sp == "class" else ["call", meth[la], a, b]), "assertion"
        # class algebra
        neg = r.random() < 0.25
        want = ("class-",) if neg else ("class+", "token")
        c = self.operand(("class-",) if neg else ("class+",))      # at least one operand is a class
        g = r.random()
        if g < 0.15:
            return ["op", "~", c], ("class+" if neg else "class-")
        d = c if r.random() < 0.2 else self.operand(want, allow_str=False)
        if r.random() < 0.15 and not neg:
            d = ["chr", r.choice(self.pal)]
        if r.random() < 0.06:
            d = self.operand(("class+",) if neg else ("class-",))        # mixed -> documented exception
        sym = "|" if g < 0.6 else "-"
        if r.random() < 0.2:
            # the word class with / without is_global against the same operand, one build after the other: the two differ
            # only in the flag, not in their class text, so anything keyed by the text mixes them up
            flag = r.random() < 0.5
            wc = "AnyButWordChar" if neg else "AnyWordChar"
            d = ["named", wc, flag]
            twin = ["named", wc, not flag]
            self.pending = ((["op", sym, twin, c] if r.random() < 0.2 else ["op", sym, c, twin]), ("class-" if neg else "class+"))
        if r.random() < 0.15:
            c, d = d, c
        return ["op", sym, c, d], ("class-" if neg else "class+")


def generate(run_seed, tier):
    wl, sc = stream(run_seed, "workload"), stream(run_seed, "schedule")
    g = Gen(wl)
    g.meta_mode = wl.random() < 0.15           # a history mostly made of meta patterns (they share module-level parts)
    ntasks = wl.randint(1, 3)
    nbuild = wl.randint(4, 24)
    use_rate = wl.choice([0.15, 0.35, 0.55])
    texts = {}
    # probe texts stay clear of the code points that only the Unicode-aware \d and \s add: whether such a shorthand is
    # emitted can depend on set order (known finding C20-known-shorthand-emission), and C06/C07 leave them unspecified
    words = wl.sample(WORDS, 8) + [c for c in (wl.choice(g.pal) for _ in range(4)) if not cm.in_zone(c)]
    for t in range(wl.randint(3, 5)):
        texts["t%d" % t] = "".join(wl.choice(words + [" ", "\n", "1", "ab"]) for _ in range(wl.randint(0, 10)))
    for tid in sorted(texts):
        if texts[tid].swapcase() != texts[tid] and wl.random() < 0.7:
            texts[tid + "s"] = texts[tid].swapcase()
    texts["t_empty"] = ""
    if g.meta_mode:
        for i, m in enumerate(META_TEXTS):
            texts["m%02d" % i] = m
    texts["t_meta"] = wl.choice(META_TEXTS)
    texts["t_meta2"] = " ".join(wl.sample([m for m in META_TEXTS if len(m) <= 12], 2))
    tids = sorted(texts)
    tasks = [[] for _ in range(ntasks)]
    hcount = 0
    dropped = set()
    for _ in range(nbuild):
        t = wl.randrange(ntasks)
        rec, kind = g.build()
        for _ in range(6):
            if ub_of(rec, g.ub) <= UB_LIMIT:
                break
            rec, kind = g.build()
        else:
            rec, kind = ["lit", "a"], "lit"
        pid = len(g.kinds)
        g.kinds.append(kind)
        g.ub.append(ub_of(rec, g.ub))
        tasks[t].append({"op": "build", "id": pid, "recipe": rec})
        while wl.random() < use_rate:
            t2 = wl.randrange(ntasks)
            target = wl.choice([pid, pid, wl.randrange(len(g.kinds))])
            u = wl.random()
            if u < 0.25:
                tasks[t2].append({"op": "compile", "id": target})
                g.used.append(target)
                if wl.random() < 0.5:
                    g.focus, g.sticky = target, 2          # a compiled object, then builders applied to it
            elif u < 0.4:
                tasks[t2].append({"op": "gcp", "id": target, "discard": wl.random() < 0.5})
                g.used.append(target)
            elif u < 0.8:
                tasks[t2].append({"op": "match", "id": target, "method": wl.choice(METHODS), "t": wl.choice(tids)})
            elif u < 0.95:
                h = "h%d" % hcount
                hcount += 1
                tasks[t2].append({"op": "iter_open", "h": h, "id": target, "t": wl.choice(tids)})
                for _ in range(wl.randint(0, 2)):
                    tasks[wl.randrange(ntasks)].append({"op": "iter_next", "h": h})
                g.used.append(target)
            elif u < 0.975:
                tasks[t2].append({"op": "purge"})
            else:
                victim = wl.choice(g.used) if g.used and wl.random() < 0.7 else target
                tasks[t2].append({"op": "drop", "id": victim})
                dropped.add(victim)
    if wl.random() < 0.10:
        # scripted chain: wrap a leaf, compile (and match with) the wrapper, then apply further builders to the
        # compiled object - whatever a builder copies from its operand must not include the compiled cache
        t = wl.randrange(ntasks)
        leaf = wl.choice([["lit", "ab"], ["lit", "Ab"], ["named", "AnyLetter"], ["new", "Either", ["lit", "ab"], ["lit", "cd"]],
                          ["new", "Either", ["lit", "ab"], ["lit", "cd"]], ["op", "+", ["lit", "a"], ["new", "Optional", ["lit", "b"]]]])
        wrap = wl.choice([["new", "Capture", leaf], ["new", "Capture", leaf, "cw"], ["new", "Group", leaf, True], ["new", "Group", leaf],
                          ["new", "Optional", leaf], leaf])
        x = len(g.kinds)
        g.kinds.append("general")
        g.ub.append(0)
        chain = [{"op": "build", "id": x, "recipe": wrap},
                 wl.choice([{"op": "compile", "id": x}, {"op": "gcp", "id": x, "discard": False}])]
        if wl.random() < 0.5:
            chain.append({"op": "match", "id": x, "method": wl.choice(METHODS), "t": wl.choice(tids)})
        flagged_first = wl.random() < 0.4          # a case-insensitive group of x first, then x in other builders
        for step_no in range(wl.randint(2, 3) if flagged_first else wl.randint(1, 3)):
            nid = len(g.kinds)
            g.kinds.append("general")
            g.ub.append(0)
            rec = wl.choice([["call", "group", ["ref", x], True], ["new", "Group", ["ref", x], True]]) if (flagged_first and step_no == 0) \
                else wl.choice([["call", "group", ["ref", x]], ["new", "Group", ["ref", x]], ["call", "group", ["ref", x], True],
                             ["call", "capture", ["ref", x]], ["new", "Capture", ["ref", x], "cz"], ["call", "optional", ["ref", x]],
                             ["op", "+", ["ref", x], ["lit", "!"]], ["call", "exactly", ["ref", x], 1], ["op", "+", ["ref", x], ""],
                             ["new", "Either", ["ref", x], ["lit", "zz"]], ["call", "match_at_start", ["ref", x]]])
            chain.append({"op": "build", "id": nid, "recipe": rec})
            if wl.random() < 0.5:
                chain.append({"op": "match", "id": nid, "method": wl.choice(METHODS), "t": wl.choice(tids)})
        tasks[t].extend(chain)
        texts.setdefault("t_chain", "ab AB cd Ab! zz abab")
    if wl.random() < (0.03 if tier == "quick" else 0.06):
        t = wl.randrange(ntasks)
        tasks[t].insert(wl.randint(0, len(tasks[t])), {"op": "churn", "n": wl.choice([300, 700, 1100])})
    total = sum(len(t) for t in tasks)
    # builds must stay in id order for refs to resolve: schedule interleaves tasks, unresolved refs are no-ops
    schedule = [sc.randrange(ntasks) for _ in range(total)] if sc.random() < 0.7 else []
    cf = stream(run_seed, "order")
    keys = cc.order_keys(cf, 2 if tier == "quick" else 4) if any(
        op["op"] == "build" and _touches_classes(op["recipe"]) for ops in tasks for op in ops) else []
    return {"property": PROPERTY, "config": {"order_keys": keys}, "world": {"texts": texts}, "tasks": tasks, "schedule": schedule}


def _touches_classes(r):
    if isinstance(r, list):
        if r and r[0] in ("AnyFrom", "AnyButFrom", "AnyBetween", "AnyButBetween", "named", "Any"):
            return True
        if r and r[0] == "op" and r[1] in ("|", "-", "~"):
            return True
        if r and r[0] == "new" and r[1] in META_UB or (r and r[0] == "new" and r[1] in ("Date", "IPv4")):
            return True                      # meta patterns are built from classes internally
        return any(_touches_classes(x) for x in r)
    if isinstance(r, dict):
        return any(_touches_classes(v) for v in r.values())
    return False


# ---------------------------------------------------------------------------------------
# execution
# ---------------------------------------------------------------------------------------

def api_fingerprint(obj, texts):
    """Semantic fingerprint through the public API (crosses the compiled/uncompiled switch)."""
    out = []
    short_only = rexcost.risky(str(obj))
    if short_only:
        # potentially explosive pattern: group structure plus matching on very short texts only
        try:
            c = re.compile(str(obj), FLAGS)
            out.append(["complex", c.groups, sorted(c.groupindex.items())])
        except Exception as e:                           # noqa: BLE001
            out.append(["complex", type(e).__name__])
    for tid in sorted(texts):
        t = texts[tid]
        if short_only and len(t) > 8:
            continue
        try:
            out.append([obj.has_match(t), obj.is_exact_match(t), obj.get_matches_and_pos(t), obj.get_captures(t)])
        except RecursionError:
            out.append(["exc", "RecursionError"])
        except Exception as e:                           # noqa: BLE001
            out.append(["exc", type(e).__name__])
    return out


def snapshot(obj):
    """Public observables only: the property is about an object's pattern and behaviour."""
    return [type(obj).__name__, str(obj), obj.get_pattern()]


def internal_snapshot(obj):
    """Protected accessors: a drift here is reported as an observation (it becomes a violation only through its
    effect on later expressions, which the rebuild oracle sees)."""
    snap = []
    for name in ("_get_type", "_is_repeatable", "_get_verbose_pattern"):
        f = getattr(obj, name, None)
        if f is not None:
            try:
                v = f()
                snap.append(getattr(v, "name", v))
            except Exception as e:                       # noqa: BLE001
                snap.append("exc:" + type(e).__name__)
    return snap


def is_class_obj(obj):
    return hasattr(obj, "_get_verbose_pattern")


def outcome_of_build(fn):
    try:
        return ("ok", fn())
    except RecursionError:
        return ("exc", "RecursionError", None)
    except Exception as e:                               # noqa: BLE001
        return ("exc", type(e).__name__, None)


def execute(plan, inst, keep_log=False):
    """The history under the interpreter's real hash order, then again - in further fresh module instances - under
    each order key of the set seam; per-object outcomes must agree (oracle 3 inside one process)."""
    log = EventLog(keep_log)
    base = _run(plan, inst, log, "real")
    for key in plan.get("config", {}).get("order_keys", []):
        inst2 = loader.fresh_instance()
        simset.configure(key)
        simset.install(inst2.classes)
        try:
            other = _run(plan, inst2, log, "set-order key %r" % (key,))
        finally:
            simset.uninstall(inst2.classes)
            base["stats"]["shim_noncanonical"] = base["stats"].get("shim_noncanonical", 0) + simset.counters()["noncanonical"]
        base["stats"]["shim_configs"] = base["stats"].get("shim_configs", 0) + 1
        for k in ("class_sets_compared", "rebuilt_spelling_differs"):
            base["stats"][k] += other["stats"][k]
        if other["outcome"] != base["outcome"]:
            for x, y in zip(base["outcome"], other["outcome"]):
                if x != y:
                    raise Violation("C20.set_order_dependent",
                                    "#%d = %s: %s under the real hash order but %s under set-order key %r"
                                    % (x[0], show(other["recs"][x[0]]), x[1:], y[1:], key))
    base["digest"] = log.digest()
    base["log"] = log.lines
    base.pop("recs", None)
    return base


def _run(plan, inst, log, label):
    texts = plan["world"]["texts"]
    log.add("config", label)
    ids = simid.install(inst)
    pool, recs, snaps, outcomes = {}, {}, {}, {}
    handles = {}
    stats = {"builds": 0, "build_exceptions": 0, "aliases": 0, "same_object_twice": 0, "operand_compiled": 0,
             "operand_iterated": 0, "compiles": 0, "rebuilt": 0, "rebuilt_spelling_differs": 0, "snapshots_checked": 0,
             "unresolved": 0, "class_sets_compared": 0, "shortcut_self": 0}
    cover = set()
    compiled, iterated, gone = set(), set(), set()
    stats["drops"] = 0

    def check_snapshots(context):
        for pid, o in pool.items():
            stats["snapshots_checked"] += 1
            s = snapshot(o)
            if s != snaps[pid][0]:
                raise Violation("C20.operand_changed", "object #%d = %s changed after %s: %r -> %r"
                                % (pid, show(recs[pid]), context, snaps[pid][0], s))
            if internal_snapshot(o) != snaps[pid][2]:
                stats["internal_drift"] = stats.get("internal_drift", 0) + 1

    def check_fingerprint(pid, context):
        fp = digest_of(api_fingerprint(pool[pid], texts))
        if fp != snaps[pid][1]:
            raise Violation("C20.behaviour_changed", "object #%d = %s (pattern %r) matches differently after %s"
                            % (pid, show(recs[pid]), str(pool[pid]), context))

    def step(t, idx, op):
        kind = op["op"]
        if kind == "build":
            rec = op["recipe"]
            need = recipes.refs(rec)
            if any(r not in pool for r in need):
                stats["unresolved"] += 1
                log.add("build_unresolved", op["id"])
                return
            stats["builds"] += 1
            if len(need) < _count_refs(rec):
                stats["same_object_twice"] += 1
            if any(r in compiled for r in need):
                stats["operand_compiled"] += 1
            if any(r in iterated for r in need):
                stats["operand_iterated"] += 1
            res = outcome_of_build(lambda: recipes.build(rec, inst.ns, pool))
            recs[op["id"]] = rec
            if res[0] == "exc":
                stats["build_exceptions"] += 1
                outcomes[op["id"]] = "exc:" + res[1]
                log.add("build", op["id"], "exc", res[1])
            else:
                o = res[1]
                if not hasattr(o, "get_pattern"):
                    outcomes[op["id"]] = "notpregex"
                    log.add("build", op["id"], "notpregex")
                else:
                    alias = next((p for p, q in pool.items() if q is o), None)
                    if alias is not None:
                        stats["aliases"] += 1
                        if alias in need:
                            stats["shortcut_self"] += 1
                    pool[op["id"]] = o
                    snaps[op["id"]] = (snapshot(o), digest_of(api_fingerprint(o, texts)), internal_snapshot(o))
                    outcomes[op["id"]] = "ok"
                    log.add("build", op["id"], "ok", str(o), alias)
            cover.add("|".join(("build", rec[0], str(rec[1]) if rec[0] in ("new", "call", "op") else "-",
                                "twice" if len(need) < _count_refs(rec) else ("reused" if need else "fresh"),
                                "C" if any(r in compiled for r in need) else "-",
                                "I" if any(r in iterated for r in need) else "-",
                                outcomes[op["id"]] if outcomes[op["id"]] != "ok" else "ok")))
            check_snapshots("building #%d = %s" % (op["id"], show(rec)))
            for r in need:
                check_fingerprint(r, "being used as an operand of #%d = %s" % (op["id"], show(rec)))
        elif kind in ("compile", "gcp", "match", "iter_open"):
            pid = op["id"]
            if pid not in pool:
                log.add("skip", kind)
                return
            o = pool[pid]
            if kind in ("match", "iter_open") and rexcost.risky(str(o)):
                stats["probes_skipped_complex"] = stats.get("probes_skipped_complex", 0) + 1
                log.add("skip-complex", kind, pid)
                return
            try:
                if kind == "compile":
                    o.compile()
                    compiled.add(pid)
                    stats["compiles"] += 1
                elif kind == "gcp":
                    o.get_compiled_pattern(discard_after=op["discard"])
                    (compiled.discard if op["discard"] else compiled.add)(pid)
                elif kind == "match":
                    v = getattr(o, op["method"])(texts.get(op["t"], ""))
                    log.add("match", pid, op["method"], op["t"], digest_of(v))
                else:
                    handles[op["h"]] = [o.iterate_matches_and_pos(texts.get(op["t"], "")), pid]
                    iterated.add(pid)
            except re.error as e:
                log.add(kind, pid, "re.error")
            except Exception as e:                       # noqa: BLE001
                log.add(kind, pid, "exc", type(e).__name__)
            cover.add("|".join((kind, "C" if pid in compiled else "-", "I" if pid in iterated else "-")))
            check_snapshots("%s on #%d" % (kind, pid))
            check_fingerprint(pid, "%s on it" % kind)
        elif kind == "iter_next":
            h = handles.get(op["h"])
            if h is None:
                log.add("skip", kind)
                return
            try:
                v = next(h[0])
                log.add("iter_next", op["h"], digest_of(v))
            except StopIteration:
                log.add("iter_next", op["h"], "stop")
            except Exception as e:                       # noqa: BLE001
                log.add("iter_next", op["h"], "exc", type(e).__name__)
            check_snapshots("advancing an iterator of #%d" % h[1])
        elif kind == "purge":
            inst.ns["Pregex"].purge()
            log.add("purge")
        elif kind == "churn":
            # "long-lived process": n further distinct objects are built in this module instance (part of the plan, so the
            # run replays); the rebuild oracle's fresh instance has not seen them
            from checks import c03
            c03.churn(inst, op["n"])
            stats["churn_objects"] = stats.get("churn_objects", 0) + op["n"]
            log.add("churn", op["n"])
        elif kind == "drop":
            # the object dies (unless an iterator or another pool entry still holds it): later objects may
            # be allocated at its address
            pid = op["id"]
            if pid in pool:
                o = pool.pop(pid)
                for k in [k for k, q in pool.items() if q is o]:
                    pass
                del o
                gone.add(pid)
                stats["drops"] += 1
                import gc
                gc.collect()
            log.add("drop", pid)
        else:
            raise HarnessError("unknown op %r" % kind)

    s = sched.run(plan, step)
    # end of run: every object still is what it was
    for pid in pool:
        check_fingerprint(pid, "the whole history")
    # oracle 2: rebuild, tree-expanded, reverse order, fresh module instance, never compiled
    fresh = loader.fresh_instance()
    if label != "real":
        simset.install(fresh.classes)           # same set-order configuration as the history it is compared with
    final = {}
    for pid in sorted(recs, reverse=True):
        exp = recipes.expand(recs[pid], recs)
        res = outcome_of_build(lambda: recipes.build(exp, fresh.ns, None))
        stats["rebuilt"] += 1
        if res[0] == "exc":
            got = "exc:" + res[1]
        elif not hasattr(res[1], "get_pattern"):
            got = "notpregex"
        else:
            got = "ok"
        if got != outcomes[pid]:
            raise Violation("C20.history_dependent_outcome",
                            "#%d = %s: in this history -> %s, rebuilt from fresh sub-objects in a fresh module instance -> %s"
                            % (pid, show(recs[pid]), outcomes[pid], got))
        if got == "ok" and pid in pool:
            o2 = res[1]
            fp2 = digest_of(api_fingerprint(o2, texts))
            if str(o2) != str(pool[pid]):
                stats["rebuilt_spelling_differs"] += 1
            if fp2 != snaps[pid][1]:
                raise Violation("C20.history_dependent_value",
                                "#%d = %s: pattern %r in this history, %r when rebuilt from fresh sub-objects; they match differently"
                                % (pid, show(recs[pid]), str(pool[pid]), str(o2)))
            if is_class_obj(pool[pid]) and is_class_obj(o2) and str(o2) != str(pool[pid]) and stats["class_sets_compared"] < 6:
                stats["class_sets_compared"] += 1
                s1, _ = cm.matched_set(str(pool[pid]))
                s2, _ = cm.matched_set(str(o2))
                if s1 != s2:
                    raise Violation("C20.history_dependent_value", "#%d = %s: class %r in this history, %r when rebuilt"
                                    % (pid, show(recs[pid]), str(pool[pid]), str(o2)))
            final[pid] = fp2
    outcome = [[pid, outcomes[pid], final.get(pid)] for pid in sorted(recs)]
    stats["steps"], stats["switches"] = s["steps"], s["switches"]
    stats["simid_calls"], stats["simid_recycled"] = ids.calls, ids.recycled
    nontrivial = (stats["same_object_twice"] + stats["aliases"] + stats["operand_compiled"] + stats["operand_iterated"]) > 0
    return {"digest": None, "stats": stats, "faults_fired": {}, "cover": sorted(cover), "outcome": outcome,
            "nontrivial": nontrivial, "log": None, "recs": recs}


def _count_refs(r):
    if isinstance(r, list):
        if r and r[0] == "ref":
            return 1
        return sum(_count_refs(x) for x in r)
    if isinstance(r, dict):
        return sum(_count_refs(v) for v in r.values())
    return 0


def show(r):
    if not isinstance(r, list):
        return repr(r)
    h = r[0]
    if h == "ref":
        return "#%d" % r[1]
    if h == "lit":
        return "Pregex(%r)" % r[1]
    if h == "empty":
        return "Pregex()"
    if h == "new":
        return "%s(%s)" % (r[1], ", ".join(show(x) for x in r[2:]))
    if h == "call":
        return "%s.%s(%s)" % (show(r[2]), r[1], ", ".join(show(x) for x in r[3:]))
    if h == "op":
        if r[1] == "~":
            return "~" + show(r[2])
        return "(%s %s %s)" % (show(r[2]), r[1], show(r[3]))
    if isinstance(r, dict):
        return repr(r)
    return cc.show(r)


def shrink_candidates(plan):
    import copy
    keys = plan.get("config", {}).get("order_keys", [])
    if keys:
        q = copy.deepcopy(plan)
        q["config"]["order_keys"] = []
        yield q
        for k in keys:
            if len(keys) > 1:
                q = copy.deepcopy(plan)
                q["config"]["order_keys"] = [k]
                yield q
    texts = plan["world"]["texts"]
    used = {op.get("t") for ops in plan["tasks"] for op in ops if "t" in op}
    for tid in sorted(texts):
        if len(texts) > 1:
            q = copy.deepcopy(plan)
            del q["world"]["texts"][tid]
            yield q
    for tid in sorted(texts):
        t = texts[tid]
        if len(t) > 1:
            for cut in (t[:len(t) // 2], t[len(t) // 2:], t[1:], t[:-1]):
                q = copy.deepcopy(plan)
                q["world"]["texts"][tid] = cut
                yield q
    # inline a referenced object into its user (removes sharing) / replace operand by a simple leaf
    for ti, ops in enumerate(plan["tasks"]):
        for oi, op in enumerate(ops):
            if op["op"] != "build":
                continue
            for path, sub in _subterms(op["recipe"], ()):
                if isinstance(sub, list) and sub and sub[0] != "ref" and path:
                    if op["recipe"][0] == "op" and op["recipe"][1] in ("|", "-", "~"):
                        simples = (["named", "AnyDigit"],)          # stay inside the class algebra
                    else:
                        simples = (["lit", "a"], ["named", "AnyDigit"])
                    for simple in simples:
                        if sub != simple:
                            q = copy.deepcopy(plan)
                            _set(q["tasks"][ti][oi]["recipe"], path, simple)
                            yield q


def _subterms(r, path):
    if isinstance(r, list):
        yield path, r
        if r and r[0] in ("lit", "raw", "tok", "chr", "named", "ref"):
            return
        start = 2 if r and r[0] in ("new", "call", "op") else 1
        for i in range(start, len(r)):
            if isinstance(r[i], list):
                yield from _subterms(r[i], path + (i,))


def _set(r, path, v):
    for i in path[:-1]:
        r = r[i]
    r[path[-1]] = v


EVIDENCE = {
    "rule": "Each run is a history of 4-24 build ops (class / method / operator spellings of every combinator, class algebra, "
            "leaves incl. metacharacter literals, tokens, meta patterns) over a shared pool, by 1-3 interleaved tasks, with use "
            "ops (compile, get_compiled_pattern, matching calls, lazy iterators, purge) in between; operands are biased to "
            "sharing (same object twice, recently compiled / iterated objects, 'returns itself' shortcuts). Every run index is "
            "executed under >= 2 real PYTHONHASHSEEDs and the configuration-independent outcome digests are compared. "
            "Distinct = distinct event digest; non-trivial = the history contained the same object twice in one call, an alias "
            "returned by a shortcut, or an operand that had been compiled or was being iterated.",
    "measure": "(builder, spelling, sharing pattern {fresh, reused, same-object-twice}, operand compiled?, operand iterated?, "
               "outcome class) plus (use op, compiled?, iterated?)",
    "probes": ["drops", "aliases", "shortcut_self", "same_object_twice", "operand_compiled", "operand_iterated", "rebuilt",
               "build_exceptions", "snapshots_checked", "shim_configs", "churn_objects"],
    "fault_kinds": [],
    "components": {
        "real": ["all of pregex", "re", "fresh module instances (every pregex module re-executed) for the rebuild oracle"],
        "stub": ["set iteration order in the additional shim configurations of each run", "the builtin id() as seen from pregex modules (SimId: deterministic numbers, the number of a dead object is "
                 "recycled for the next new one)"],
    },
    "assumptions": [
        "semantic equivalence is decided on probe texts derived from the run's literals (sound witness of a difference, "
        "sampling evidence of agreement); classes whose spelling differs are compared over all code points",
        "ops that raise simply add nothing; C20 does not judge exception types, only that the same recipe raises the same type "
        "in every history, module instance and hash seed",
        "besides >= 2 real hash seeds per run index, histories that touch classes are repeated under 2 (quick) / 4 (thorough) set-order keys",
    ],
}
