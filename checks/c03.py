"""C03 - every pattern-building call yields a usable pattern or a documented exception -
in every configuration.

Claimed slice: the configuration dimension.  A builder program (the C20 vocabulary plus meta
constructors with valid and documented-invalid arguments) is executed op by op under the real
hash order of the worker interpreter, under several order keys of the set seam, and in a
fresh vs. a heavily used module instance (an in-plan "churn" of 300-2100 further constructions).  Oracle: the outcome classifier
for every op in every configuration, and equality of outcome classes across configurations.
"""
import re

from checks import c20
from sim import loader, recipes, rexcost, simset
from sim.kernel import EventLog, HarnessError, Violation, digest_of, stream

PROPERTY = "C03"
FLAGS = re.MULTILINE | re.DOTALL
SHRINK_SECONDS = 40.0
FRESH_PER_RUN = True

UNDEFINED_REF = ("unknown group name", "invalid group reference", "cannot refer to an open group",
                 "cannot refer to group defined in the same lookbehind subpattern")

META_VALID = [
    ["new", "Integer", 0, 255], ["new", "Integer", -50, 50, {"include_sign": True}], ["new", "PositiveInteger", 1, 99],
    ["new", "NegativeInteger", 1, 20], ["new", "UnsignedInteger", 0, 12], ["new", "Decimal", 0, 9, 1, 2],
    ["new", "PositiveDecimal", 0, 9, 1, 3], ["new", "UnsignedDecimal", 0, 99, 0, 2], ["new", "IPv4"], ["new", "IPv6"],
    ["new", "Email"], ["new", "HttpUrl"], ["new", "Date"], ["new", "Date", "dd/mm/yyyy"], ["new", "Date", ["list", "d-m-yy", "yyyy/mm/dd"]],
    ["new", "Word", 2, 4], ["new", "Word", 1, None, {"is_global": False}], ["new", "WordContains", "ab"],
    ["new", "WordStartsWith", ["list", "pre", "un"]], ["new", "WordEndsWith", "ing"], ["new", "Numeral", 16, 1, 4],
    ["new", "Numeral", 2], ["new", "Text"], ["new", "Whitespace"], ["new", "NonWhitespace"], ["new", "Text", True],
    # class algebra at the two ends of the code-point range (chr(-1) / chr(0x110000) must never be computed)
    ["op", "-", ["AnyBetween", "\x00", "z"], ["AnyFrom", "\x00"]], ["op", "-", ["AnyBetween", "\x00", "\x05"], ["AnyBetween", "\x00", "\x02"]],
    ["op", "-", ["AnyBetween", "a", "\U0010ffff"], ["AnyFrom", "\U0010ffff"]], ["op", "|", ["AnyBetween", "\U0010fff0", "\U0010fffe"], ["AnyFrom", "\U0010ffff", "\x00"]],
    ["op", "-", ["AnyBetween", "\x00", "\U0010ffff"], ["AnyFrom", "\x00", "\U0010ffff"]], ["op", "-", ["Any"], ["AnyFrom", "\x00", "\U0010ffff"]],
]
META_INVALID = [
    ["new", "Integer", 5, 1], ["new", "Integer", "0", 5], ["new", "Integer", True, 5], ["new", "Integer", -1, 5],
    ["new", "Decimal", 0, 9, 3, 1], ["new", "Decimal", 0, 9, "1"], ["new", "Decimal", 0, 9, -1],
    ["new", "Date", "dd.mm.yyyy"], ["new", "Date", ["list", "dd/mm/yyyy", "yyyy"]], ["new", "Word", 0, 3], ["new", "Word", 3, 1],
    ["new", "Word", "2"], ["new", "Word", True], ["new", "WordContains", 5], ["new", "Numeral", 1],
    ["new", "Numeral", 40], ["new", "Numeral", 10, 3, 2], ["new", "Numeral", "10"],
    ["new", "NegativeInteger", -3, 5], ["new", "WordStartsWith", ["list", "a", 5]],
    # wrongly typed / unhashable elements of Date's format list (InvalidArgumentValueException is due for each)
    ["new", "Date", ["list", ["list", "dd/mm/yyyy"]]], ["new", "Date", ["list", 5]], ["new", "Date", ["list", None, "dd/mm/yyyy"]],
    ["new", "Date", ["list", 1.5]], ["new", "Date", ["list", "dd/mm/yyyy", ["list"]]], ["new", "Date", ["list", True]],
    ["new", "Date", ["list", ["list", "d/m/yy", "yyyy/mm/dd"], "dd/mm/yyyy"]],
]
BAD_ARGS = [5, None, 1.5, True, ["list", "a"]]
LOOKBEHIND = ("PrecededBy", "preceded_by", "NotPrecededBy", "not_preceded_by", "EnclosedBy", "enclosed_by",
              "NotEnclosedBy", "not_enclosed_by")


class Gen3(c20.Gen):
    """The C20 generator plus documented-invalid calls, kept inside C03's explored input domain
    (DESIGN.md, section 6): unique capture names, no operand that carries a named group used twice
    in one expression."""

    def __init__(self, rng):
        super().__init__(rng)
        self.names = []          # set of group names per pool id
        self.ncap = 0
        self.expect = None

    def names_of(self, rec):
        out = set()
        for i in recipes.refs(rec):
            out |= self.names[i]
        return out

    def build3(self):
        r = self.rng
        for _ in range(30):
            k = r.random()
            self.expect = None
            if k < 0.08:
                rec, kind = r.choice(META_VALID), "general"
            elif k < 0.13:
                rec, kind = r.choice(META_INVALID), "general"
                self.expect = "own"
            elif k < 0.20 and self.kinds:
                rec, kind = self.invalid_call(), "general"
                if not (rec[0] == "new" and rec[1] == "Date"):
                    self.expect = "own"                  # invalid in a documented way: a pregex exception is due
            else:
                rec, kind = self.build()
            rec = self.fix_names(rec)
            if rec is None:
                continue
            return rec, kind
        return ["lit", "a"], "general"

    def fix_names(self, rec):
        # unique names for new captures; reject recipes that would duplicate a named group
        own = set()
        if rec[0] in ("new", "call") and rec[1] in ("Capture", "capture"):
            if isinstance(rec[-1], str) and rec[-1] in ("g1", "g2", "key"):
                self.ncap += 1
                rec = rec[:-1] + ["n%d" % self.ncap]
                own.add(rec[-1])
        seen, dup = set(), False
        twice = rec[0] in ("new", "call") and rec[1] in ("Enclose", "enclose", "EnclosedBy", "enclosed_by",
                                                          "NotEnclosedBy", "not_enclosed_by")
        if twice and any(self.names[i] for i in _ref_list(rec[3:] if rec[0] == "new" else rec[3:])):
            return None                                  # the enclosing operand is emitted twice
        if rec[0] in ("new", "call") and rec[1] in LOOKBEHIND:
            # explored domain: lookbehind assertion operands are single literals / classes / tokens
            for x in (rec[3:] if rec[0] == "new" else rec[3:]):
                if isinstance(x, list) and x and x[0] == "ref" and self.kinds[x[1]] not in ("lit", "class+", "class-", "token"):
                    return None
                if isinstance(x, list) and x and x[0] in ("new", "call", "op") and x[1] not in QUANT and \
                        not (x[0] == "op" and x[1] == "+" and isinstance(x[2], list) and x[2][0] in ("new", "call") and x[2][1] in QUANT):
                    return None
        for i in _ref_list(rec):
            if self.names[i] & seen:
                dup = True
            seen |= self.names[i]
        if dup:
            return None
        self._pending_names = seen | own
        return rec

    def bad_name(self):
        r = self.rng
        base = r.choice(["a", "key", "g_1", "Name"])
        if r.random() < 0.25:
            return r.choice(["1", "7", "12", "0"])       # digits only: never a valid name
        return r.choice([base + "\n", "1" + base, base + " x", base + "-", "", base + "!", " " + base, base + "é-", "\n" + base,
                         base + "\t", "(" + base, base + ">", 5, None if False else 7.5])

    def date_format(self):
        r = self.rng
        parts = [r.choice(["d", "dd"]), r.choice(["m", "mm"]), r.choice(["yy", "yyyy"])]
        r.shuffle(parts)
        seps = [r.choice("-/"), r.choice("-/")] if r.random() < 0.6 else [r.choice("-/. ")] * 2
        f = parts[0] + seps[0] + parts[1] + seps[1] + parts[2]
        if r.random() < 0.2:
            f = r.choice([f.upper(), f + " ", "d" + f, f[:-1], f.replace("m", "n", 1)])
        return f

    def invalid_call(self):
        r = self.rng
        a = self.operand()
        bad = r.choice(BAD_ARGS)
        k = r.random()
        if k < 0.2:
            return r.choice([["new", "Capture", a, self.bad_name()], ["call", "capture", a, self.bad_name()],
                             ["new", "Conditional", self.bad_name(), a], ["new", "Backreference", str(self.bad_name()) + "-"]])
        if k < 0.35:
            return r.choice([["new", "Date", self.date_format()], ["new", "Date", ["list", self.date_format(), self.date_format()]]])
        if k < 0.42:
            # class operators with an operand that is neither a class nor a single character / token:
            # CannotBeUnionedException / CannotBeSubtractedException are due, in both operand orders
            cls = r.choice([["named", "AnyDigit"], ["named", "AnyLetter"], ["AnyFrom", "a", "b"], ["named", "AnyButDigit"],
                            ["AnyButFrom", "x"], ["Any"]])
            wrong = r.choice(["ab", "", 5, None, 1.5, True, ["lit", "ab"], ["new", "WordBoundary"], ["new", "NonWordBoundary"],
                              ["new", "Optional", ["lit", "a"]], ["new", "Group", ["lit", "a"]], ["list", "a"], ["empty"]])
            sym = r.choice(["|", "-"])
            return ["op", sym, cls, wrong] if r.random() < 0.5 else ["op", sym, wrong, cls]
        if k < 0.5:
            # a quantified (not fixed-width) pattern as a lookbehind assertion: NonFixedWidthPatternException is due
            lit = r.choice([["lit", r.choice(["a", "ab", "x"])], ["named", "AnyDigit"], ["AnyFrom", "a", "b"], ["AnyFrom", "a", "\\"],
                            ["AnyBetween", "A", "\\"], ["AnyFrom", "]", "x"], ["AnyFrom", "[", "\\"], ["AnyFrom", "+", "*", "?"],
                            ["AnyButFrom", "\\"], ["lit", "\\"], ["lit", "["],
                            # literals that are escaped on emission: the quantifier then follows an escaped metacharacter
                            ["lit", "("], ["lit", ")"], ["lit", "a("], ["lit", "(a"], ["lit", "{"], ["lit", "}"], ["lit", "."],
                            ["lit", "$"], ["lit", "|"], ["lit", "?"], ["lit", "*"], ["lit", "+"], ["lit", "\\("], ["lit", "()"],
                            ["lit", "^"], ["lit", "]"]])
            n = r.choice([2, 3, 5])
            q = r.choice([["new", "Optional", lit], ["new", "Indefinite", lit], ["new", "OneOrMore", lit], ["new", "AtLeast", lit, n],
                          ["new", "AtMost", lit, n], ["new", "AtMost", lit, None], ["new", "AtLeastAtMost", lit, 0, n],
                          ["new", "AtLeastAtMost", lit, 1, n], ["new", "AtLeastAtMost", lit, n, None],
                          ["call", "at_most", lit, n], ["call", "at_least", lit, n], ["new", "Optional", lit, False],
                          ["new", "AtMost", lit, n, False]])
            if r.random() < 0.5:
                q = ["op", "+", q, r.choice([["lit", "z"], ["named", "AnyLetter"], ["AnyFrom", "x", "\\"], ["AnyFrom", "+", "("]])]
            lb = r.choice(["PrecededBy", "NotPrecededBy", "EnclosedBy", "NotEnclosedBy"])
            meth = {"PrecededBy": "preceded_by", "NotPrecededBy": "not_preceded_by", "EnclosedBy": "enclosed_by",
                    "NotEnclosedBy": "not_enclosed_by"}[lb]
            return ["new", lb, a, q] if r.random() < 0.5 else ["call", meth, a, q]
        return r.choice([
            ["new", "Concat", a, bad], ["call", "concat", a, bad], ["new", "Either", bad, a], ["new", "Optional", bad],
            ["new", "Exactly", a, r.choice([-1, 1.5, True, "2", None])], ["call", "exactly", a, r.choice([-2, "1", False])],
            ["new", "AtLeast", a, r.choice([-1, None, True])], ["new", "AtMost", a, r.choice([-1, "3", 2.5])],
            ["new", "AtLeastAtMost", a, r.choice([3, -1, "1"]), r.choice([1, -2, "x"])],
            ["op", "*", a, r.choice([-1, 1.5, True, "2"])],
            ["new", "Capture", a, r.choice(["1a", "a b", "", 5, "é-", "a\n"])], ["call", "capture", a, r.choice(["9", "x!", 7])],
            ["new", "Backreference", r.choice([0, -1, "1x", 1.5, None, True, 100])],
            ["new", "Conditional", r.choice(["2b", 5, ""]), a], ["new", "Conditional", "nm", bad],
            ["new", "FollowedBy", a], ["new", "NotFollowedBy", a, ""], ["new", "PrecededBy", a, bad],
            ["new", "NotPrecededBy", a, ["new", "OneOrMore", ["lit", "a"]]], ["new", "PrecededBy", a, ["new", "Optional", ["lit", "ab"]]],
            ["new", "Pregex", bad], ["new", "AnyFrom"],
            ["new", "AnyFrom", "ab"], ["new", "AnyFrom", ""], ["new", "AnyFrom", "a", ["empty"]], ["new", "AnyBetween", "", "z"],
            ["new", "AnyBetween", "b", "a"], ["new", "AnyBetween", a, "a"] if False else ["new", "AnyButFrom", bad],
            ["new", "MatchAtStart", bad], ["new", "Group", bad],
        ])


def _ref_list(r, acc=None):
    acc = [] if acc is None else acc
    if isinstance(r, list):
        if r and r[0] == "ref":
            acc.append(r[1])
        else:
            for x in r:
                _ref_list(x, acc)
    elif isinstance(r, dict):
        for v in r.values():
            _ref_list(v, acc)
    return acc


def generate(run_seed, tier):
    wl, cf = stream(run_seed, "workload"), stream(run_seed, "order")
    g = Gen3(wl)
    prog = []
    for _ in range(wl.randint(3, 18)):
        rec, kind = g.build3()
        for _ in range(6):
            if c20.ub_of(rec, g.ub) <= c20.UB_LIMIT:
                break
            rec, kind = g.build3()
        else:
            rec, kind = ["lit", "a"], "lit"
            g.expect = None
            g._pending_names = set()
        g.ub.append(c20.ub_of(rec, g.ub))
        g.kinds.append(kind)
        g.names.append(set(getattr(g, "_pending_names", set())))
        g._pending_names = set()
        bid = len(g.kinds) - 1
        if wl.random() < 0.12:
            prog.append({"op": "export", "id": bid - 1 if bid > 0 and wl.random() < 0.5 else bid, "flags": wl.random() < 0.7})
        prog.append({"op": "build", "id": bid, "recipe": rec})
        if g.expect:
            prog[-1]["expect"] = g.expect
        if wl.random() < 0.25:
            prog[-1]["export_first"] = wl.random() < 0.7
        if wl.random() < 0.12:
            prog.append({"op": "export", "id": bid, "flags": wl.random() < 0.7})
    words = wl.sample(c20.WORDS, 8) + [c for c in (wl.choice(g.pal) for _ in range(4)) if not c20.cm.in_zone(c)]
    texts = {"t%d" % t: "".join(wl.choice(words + [" ", "\n", "1", "ab"]) for _ in range(wl.randint(0, 10))) for t in range(3)}
    texts["t_empty"] = ""
    nkeys = 3 if tier == "quick" else 6
    from checks import classcommon as cc
    churn_n = cf.choice([300, 1100, 2100]) if cf.random() < (0.04 if tier == "quick" else 0.08) else 0
    return {"property": PROPERTY, "config": {"order_keys": cc.order_keys(cf, nkeys), "churn": churn_n},
            "world": {"texts": texts}, "tasks": [prog], "schedule": []}


# ---------------------------------------------------------------------------------------

def classify(fn, texts):
    """Outcome class of one builder call: ("own", name) | ("valid", obj) | ("foreign", name, msg) | ("unusable", why)."""
    try:
        o = fn()
    except RecursionError as e:
        return ("foreign", "RecursionError", "")
    except Exception as e:                               # noqa: BLE001
        if type(e).__module__.endswith("pregex.core.exceptions"):
            return ("own", type(e).__name__)
        return ("foreign", type(e).__name__, str(e)[:120])
    if not hasattr(o, "get_pattern"):
        return ("unusable", "returned %s, not a Pregex" % type(o).__name__)
    return ("valid", o)


def usable(o, texts):
    """None if o is usable, else (why, exempt?)."""
    try:
        s, g = str(o), o.get_pattern()
    except Exception as e:                               # noqa: BLE001
        return ("str()/get_pattern() raised %s" % type(e).__name__, False)
    if not isinstance(s, str) or not isinstance(g, str):
        return ("str()/get_pattern() is not a string", False)
    try:
        c1 = re.compile(s, FLAGS)
    except re.error as e:
        return ("pattern %r is rejected by re: %s" % (s, e), any(m in str(e) for m in UNDEFINED_REF))
    except RecursionError:
        return ("pattern %r makes re.compile recurse" % s[:80], False)
    if not g.isprintable():
        return ("exported text %r is not printable" % g, False)
    try:
        c2 = re.compile(g, FLAGS)
    except re.error as e:
        return ("exported text %r is rejected by re: %s" % (g, e), False)
    try:
        gf = o.get_pattern(include_flags=True)
    except Exception as e:                               # noqa: BLE001
        return ("get_pattern(include_flags=True) raised %s" % type(e).__name__, False)
    if not isinstance(gf, str):
        return ("get_pattern(include_flags=True) returned %s" % type(gf).__name__, False)
    if rexcost.risky(s) or rexcost.risky(g):
        return None                                      # workload guard: no matching probe on potentially explosive patterns
    for tid in sorted(texts):
        t = texts[tid]
        a = [(m.span(), m.groups()) for m in c1.finditer(t)]
        b = [(m.span(), m.groups()) for m in c2.finditer(t)]
        if a != b:
            return ("exported text %r is not equivalent to the pattern %r (on %r)" % (g, s, t), False)
    return None


QUANT = ("Optional", "Indefinite", "OneOrMore", "Exactly", "AtLeast", "AtMost", "AtLeastAtMost", "optional", "indefinite",
         "one_or_more", "exactly", "at_least", "at_most", "at_least_at_most")
GROUPS = ("Capture", "capture", "Group", "group")


def out_of_domain(rec, pool):
    """Input-domain guard (DESIGN.md section 6): decided from the *operands* of a call only - never from what the
    call returns.  Each excluded family is a listed known finding."""
    if rec[0] not in ("new", "call", "op"):
        return None
    if rec[0] == "op" and rec[1] in ("|", "-", "~"):
        def is_cls(x):
            if isinstance(x, list) and x and x[0] == "ref":
                return hasattr(pool.get(x[1]), "_get_verbose_pattern")
            return recipes.is_class_recipe(x) or (isinstance(x, list) and x and x[0] == "op" and x[1] in ("|", "-", "~"))
        if not any(is_cls(x) for x in rec[2:]):
            return "operator %s without a class operand is not a pregex call (Python raises TypeError itself)" % rec[1]
    operands = [pool[x[1]] for x in rec[2:] if isinstance(x, list) and x and x[0] == "ref" and x[1] in pool]
    texts = [str(o) for o in operands if hasattr(o, "get_pattern")]
    strs = texts + [x for x in rec[2:] if isinstance(x, str)]
    if len(strs) > 1 and any(re.search(r"(?<!\\)(?:\\\\)*\\\d+$", t) for t in strs) and any(t[:1].isdigit() for t in strs):
        return "a numeric backreference next to a pattern that starts with a digit (known finding C03-known-backreference-digit)"
    return None


def run_config(plan, inst, label, log, stats):
    texts = plan["world"]["texts"]
    pool, outs = {}, {}
    for op in plan["tasks"][0]:
        if op["op"] not in ("build", "export"):
            continue
        if op["op"] == "export":
            o = pool.get(op["id"])
            if o is not None:
                try:
                    o.get_pattern(include_flags=op["flags"])
                    stats["exports"] += 1
                except Exception as e:                   # noqa: BLE001
                    raise Violation("C03.foreign_exception:" + type(e).__name__, "get_pattern(include_flags=%r) of %r raised %s [%s]"
                                    % (op["flags"], str(o), type(e).__name__, label))
            continue
        rec = op["recipe"]
        if any(r not in pool for r in recipes.refs(rec)):
            outs[op["id"]] = "unresolved"
            continue
        why = None if plan["config"].get("no_domain_guard") else out_of_domain(rec, pool)
        if why:
            outs[op["id"]] = "out-of-domain"
            stats["out_of_domain"] += 1
            log.add(label, op["id"], "out-of-domain", why)
            continue
        c = classify(lambda: recipes.build(rec, inst.ns, pool), texts)
        stats["ops"] += 1
        if op.get("expect") == "own" and c[0] in ("valid", "unusable"):
            raise Violation("C03.missing_exception", "%s is invalid in a documented way but returned %r instead of raising a pregex "
                            "exception [%s]" % (c20.show(rec), str(c[1]) if c[0] == "valid" else c[1], label))
        if c[0] == "own":
            outs[op["id"]] = "own:" + c[1]
            stats["own_exceptions"] += 1
            if op.get("expect") == "own":
                stats["expected_exceptions_checked"] += 1
        elif c[0] == "foreign":
            raise Violation("C03.foreign_exception:" + c[1], "%s raised %s (%s) [%s]" % (c20.show(rec), c[1], c[2], label))
        elif c[0] == "unusable":
            raise Violation("C03.unusable", "%s %s [%s]" % (c20.show(rec), c[1], label))
        else:
            if op.get("export_first") is not None:
                try:
                    c[1].get_pattern(include_flags=op["export_first"])      # the first export of a new object
                    stats["exports"] += 1
                except Exception:                        # noqa: BLE001
                    pass
            why = usable(c[1], texts)
            if why is not None and not why[1]:
                raise Violation("C03.unusable", "%s returned an object whose %s [%s]" % (c20.show(rec), why[0], label))
            if why is not None:
                stats["exempt_undefined_reference"] += 1
                outs[op["id"]] = "valid-undefined-ref"
            else:
                outs[op["id"]] = "valid"
                stats["valid"] += 1
            pool[op["id"]] = c[1]
        log.add(label, op["id"], outs[op["id"]], str(pool[op["id"]]) if op["id"] in pool else None)
    return outs


def churn(inst, n):
    ns = inst.ns
    for k in range(n):
        a, b = chr(0x100 + (k * 7) % 0x2000), chr(0x2200 + (k * 13) % 0x3000)
        try:
            c = ns["AnyFrom"](a, b, chr(0x61 + k % 26))
            d = (c | ns["AnyBetween"](chr(0x400 + k % 200), chr(0x500 + k % 200))) if k % 3 == 0 else ns["AnyButFrom"](a)
            p = ns["Pregex"]("w%d" % k) + ns["Optional"](d) + c
            if k % 50 == 0:
                p.compile()
                p.get_matches("w%d" % k)
            p.get_pattern(include_flags=(k % 2 == 0))
        except Exception:                                 # noqa: BLE001
            pass


def execute(plan, inst, keep_log=False):
    log = EventLog(keep_log)
    stats = {"expected_exceptions_checked": 0, "exports": 0, "out_of_domain": 0, "ops": 0, "own_exceptions": 0, "valid": 0, "exempt_undefined_reference": 0, "configs": 0,
             "shim_noncanonical": 0, "long_lived_runs": 0, "churn_objects": 0}
    results = []
    results.append(("real/fresh", run_config(plan, inst, "real hash order, fresh module instance", log, stats)))
    for key in plan["config"].get("order_keys", []):
        simset.configure(key)
        simset.install(inst.classes)
        try:
            results.append(("shim %r" % (key,), run_config(plan, inst, "set-order key %r" % (key,), log, stats)))
        finally:
            simset.uninstall(inst.classes)
            stats["shim_noncanonical"] += simset.counters()["noncanonical"]
    n = plan["config"].get("churn", 0)
    if n:
        # "long-lived process": the same program again in a module instance that has meanwhile built n further
        # distinct classes / literals / quantified and compiled patterns (in-plan, so the run stays replayable)
        churn(inst, n)
        stats["long_lived_runs"] += 1
        stats["churn_objects"] += n
        results.append(("after churn", run_config(plan, inst, "module instance after %d further constructions" % n, log, stats)))
    stats["configs"] = len(results)
    base = results[0][1]
    for label, outs in results[1:]:
        if outs != base:
            for k in sorted(base):
                if outs.get(k) != base[k]:
                    rec = next(op["recipe"] for op in plan["tasks"][0] if op.get("id") == k and op["op"] == "build")
                    raise Violation("C03.configuration_dependent",
                                    "%s: outcome %s in configuration real/fresh but %s in configuration %s"
                                    % (c20.show(rec), base[k], outs.get(k), label))
    stats["steps"] = stats["ops"]
    cover = sorted({"|".join((op["recipe"][0], str(op["recipe"][1]) if op["recipe"][0] in ("new", "call", "op") else "-",
                              base.get(op["id"], "?"))) for op in plan["tasks"][0] if op["op"] == "build"})
    return {"digest": log.digest(), "stats": stats, "faults_fired": {}, "cover": cover,
            "outcome": [[k, base[k]] for k in sorted(base)], "nontrivial": stats["shim_noncanonical"] > 0 or stats["long_lived_runs"] > 0,
            "log": log.lines}


def shrink_candidates(plan):
    import copy
    if plan["config"].get("order_keys"):
        q = copy.deepcopy(plan)
        q["config"]["order_keys"] = []
        yield q
        for k in plan["config"]["order_keys"]:
            q = copy.deepcopy(plan)
            q["config"]["order_keys"] = [k]
            yield q
    if plan["config"].get("churn"):
        for n in (0, 300, 1100):
            if n < plan["config"]["churn"]:
                q = copy.deepcopy(plan)
                q["config"]["churn"] = n
                yield q
    frozen = {op["id"]: op["recipe"] for op in plan["tasks"][0] if op.get("expect")}
    for q in c20.shrink_candidates(plan):
        # an expectation ("invalid in a documented way") belongs to the exact recipe: never rewrite such a recipe
        if all(op["recipe"] == frozen[op["id"]] for op in q["tasks"][0] if op.get("expect") and op["id"] in frozen):
            yield q


EVIDENCE = {
    "rule": "Each run is a program of 3-18 builder calls over a shared pool: every combinator in class / method / operator "
            "spelling, class algebra, leaves with metacharacter literals, meta constructors with valid arguments, and the "
            "documented invalid-argument shapes (wrong type, bool for int, negative, bad group name, too few arguments, "
            "non-fixed-width lookbehind, empty negative assertion). It is executed under the worker's real hash order in a "
            "fresh module instance, under 3 (quick) / 6 (thorough) order keys of the set seam, and (4-8 % of runs) again after the "
            "same module instance has built 300-2100 further distinct objects; every run index also under >= 2 real PYTHONHASHSEEDs. "
            "Distinct = distinct event digest; non-trivial = some set iteration used a non-canonical order or the long-lived "
            "instance took part.",
    "measure": "(builder, spelling, outcome class)",
    "probes": ["expected_exceptions_checked", "churn_objects", "own_exceptions", "valid", "exempt_undefined_reference", "shim_noncanonical", "long_lived_runs"],
    "fault_kinds": [],
    "components": {"real": ["all of pregex", "re.compile as validity judge"],
                   "stub": ["set iteration order in shim configurations"]},
    "assumptions": [
        "only the configuration dimension is decided systematically; programs are a seeded sample from the input domain described "
        "in DESIGN.md section 6 (unique capture names, no duplicated named group inside one expression)",
        "references to capture groups the program never defines are exempt from the compile check, as C03 states",
        "export equivalence is judged on probe texts",
    ],
}
