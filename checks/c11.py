"""C11 - matching methods return exactly what `re` finds, compiled or not.

System under simulation: 2-6 Pregex instances (with aliases and equal-text duplicates), 1-4
client tasks issuing matching calls, lazy iterators advanced step by step, and a cache
daemon (compile / get_compiled_pattern / purge / saturate / gc) plus allocation faults at
the `re` seam, all interleaved by the seeded scheduler.
Oracle: the un-proxied `re` module applied to str(p) (captured at creation) with
MULTILINE|DOTALL - one fixed reference in every cache state.
"""
import gc
import re

from sim import corpus, recipes, sched, simid, simre
from sim.kernel import EventLog, HarnessError, Violation, digest_of, stream

PROPERTY = "C11"
FLAGS = re.MULTILINE | re.DOTALL

PATTERNS = sorted(corpus.DSL) + sorted(corpus.RAW)
MATCH_OPS = ["has_match", "is_exact_match", "get_matches", "get_matches_and_pos", "get_captures"]
ITER_METHODS = ["iterate_matches", "iterate_matches_and_pos"]


def reference(pattern_text, text, method):
    if method == "has_match":
        return re.search(pattern_text, text, FLAGS) is not None
    if method == "is_exact_match":
        return re.fullmatch(pattern_text, text, FLAGS) is not None
    ms = list(re.finditer(pattern_text, text, FLAGS))
    if method in ("get_matches", "iterate_matches"):
        return [m.group(0) for m in ms]
    if method in ("get_matches_and_pos", "iterate_matches_and_pos"):
        return [(m.group(0), m.start(), m.end()) for m in ms]
    if method == "get_captures":
        return [m.groups() for m in ms]
    raise HarnessError(method)


RW = ["a", "ab", "abc", "b", "x", "7", "42", "a.b", "(", "[x]", "a|b", "^", "$", "\\", "+", "?", " ", "\n", "é", "λ", "😀", "'\"", "-", "_", "Foo"]
RCLS = [["named", "AnyLetter"], ["named", "AnyDigit"], ["named", "AnyLowercaseLetter"], ["named", "AnyWordChar"], ["named", "AnyWhitespace"],
        ["named", "AnyButWhitespace"], ["named", "AnyButDigit"], ["named", "AnyPunctuation"], ["Any"], ["AnyFrom", "a", "b", "\n"],
        ["AnyButFrom", "a", "\n"], ["AnyBetween", "a", "f"], ["AnyFrom", "]", "^", "-", "\\"], ["named", "AnyGreekLetter"]]


def random_pattern(rng):
    """A random DSL pattern without nested quantifiers (so matching stays polynomial) and the words it is made of."""
    words = []

    def atom():
        k = rng.random()
        if k < 0.5:
            w = rng.choice(RW)
            words.append(w)
            return ["lit", w]
        if k < 0.9:
            return rng.choice(RCLS)
        return ["tok", rng.choice(["Newline", "Space", "Tab", "Backslash", "Dollar"])]

    def quant(x):
        q = rng.choice(["Optional", "OneOrMore", "Indefinite", "Exactly", "AtLeastAtMost", "AtLeast", "AtMost"])
        greedy = [] if rng.random() < 0.6 else [rng.random() < 0.5]
        n = rng.choice([0, 1, 2, 3])
        args = {"Optional": greedy, "OneOrMore": greedy, "Indefinite": greedy, "Exactly": [n], "AtLeast": [n] + greedy,
                "AtMost": [rng.choice([1, 2, None])] + greedy, "AtLeastAtMost": [n, n + rng.choice([0, 1, 2])] + greedy}[q]
        return ["new", q, x] + args

    def term():
        x = atom()
        if rng.random() < 0.4:
            x = quant(x)
        k = rng.random()
        if k < 0.08 and not x[0] == "tok":
            return ["new", rng.choice(["MatchAtStart", "MatchAtEnd", "MatchAtLineStart", "MatchAtLineEnd"]), x]
        if k < 0.2:
            return ["new", "Capture", x] + ([rng.choice(["g", "h"]) + str(rng.randrange(100))] if rng.random() < 0.4 else [])
        if k < 0.3:
            return ["new", "Group", x, rng.random() < 0.5]
        return x

    def seq():
        k = rng.random()
        if k < 0.6:
            return ["new", "Concat"] + [term() for _ in range(rng.randint(2, 4))]
        if k < 0.85:
            return ["new", "Either"] + [term() for _ in range(rng.randint(2, 3))]
        return term()
    s = seq()
    k = rng.random()
    if k < 0.12:
        s = ["new", rng.choice(["MatchAtStart", "MatchAtEnd", "MatchAtLineStart", "MatchAtLineEnd"]), s]
    elif k < 0.24:
        s = ["new", rng.choice(["FollowedBy", "NotFollowedBy", "PrecededBy", "NotPrecededBy"]), s, atom()]
    elif k < 0.30:
        s = ["op", "+", ["op", "+", ["new", "WordBoundary"], s], ["new", "WordBoundary"]]
    return s, words


def generate(run_seed, tier):
    wl, sc, fl = (stream(run_seed, n) for n in ("workload", "schedule", "faults"))
    nbase = wl.randint(1, 4)
    names = [wl.choice(PATTERNS) for _ in range(nbase)]
    instances = {}
    extra_words = []
    for i, n in enumerate(names):
        if wl.random() < 0.35:
            rec, ws = random_pattern(wl)
            instances["i%d" % i] = {"recipe": rec, "name": "random"}
            extra_words.extend(ws)
        else:
            instances["i%d" % i] = {"recipe": corpus.recipe_of(n), "name": n}
    k = len(instances)
    if wl.random() < 0.15:
        # "escape twins": the same constructor text once as a literal and once as a hand-written regex
        tw = wl.choice(["a.c", "a+", "x|y", "[ab]", "a?b", "a*", "(a)", "a{2}", "^a", "a$", "\\d"])
        instances["i%d" % k] = {"recipe": ["lit", tw], "name": "twin_lit"}
        instances["i%d" % (k + 1)] = {"recipe": ["raw", tw], "name": "twin_raw"}
        extra_words.extend([tw, "abc", "aaa", "ab", "a", "x", "7", "aa"])
        k += 2
    elif wl.random() < 0.12:
        # "printable twins": two different patterns whose printable export (get_pattern()) is the same text - a
        # hand-written backslash + raw control character and the literal backslash + letter
        ctl, let = wl.choice([("\n", "n"), ("\t", "t"), ("\r", "r"), ("\x00", "x00"), ("\x0b", "x0b")])
        pre_ = wl.choice(["", "a", "ab"])
        suf = wl.choice(["", "b", "1"])
        instances["i%d" % k] = {"recipe": ["raw", pre_ + "\\" + ctl + suf], "name": "ptwin_raw"}
        instances["i%d" % (k + 1)] = {"recipe": ["lit", pre_ + "\\" + let + suf], "name": "ptwin_lit"}
        extra_words.extend([pre_ + ctl + suf, pre_ + "\\" + let + suf, pre_ + "\\" + ctl + suf, "a", "b"])
        k += 2
    aliases = {}
    if wl.random() < 0.5:                       # equal-text duplicate (distinct object)
        src = wl.choice(sorted(instances))
        instances["i%d" % k] = dict(instances[src], dup_of=src)
        k += 1
    if wl.random() < 0.5:                       # alias (same object under a second name)
        aliases["a0"] = wl.choice(sorted(instances))
    ids = sorted(instances) + sorted(aliases)
    texts = {}
    for t in range(wl.randint(2, 5)):
        r = wl.random()
        if r < 0.12:
            texts["t%d" % t] = ""
        elif r < 0.3:
            texts["t%d" % t] = wl.choice(corpus.words_of(wl.choice(names)))     # exact witness
        elif extra_words and r < 0.65:
            pool = extra_words + ["a", "B", "1", " ", "\n", "x", "λ"]
            texts["t%d" % t] = "".join(wl.choice(pool) for _ in range(wl.randint(1, 14)))
        else:
            texts["t%d" % t] = corpus.make_text(wl, names, max_words=9)
    for tid in sorted(texts):
        if texts[tid].swapcase() != texts[tid] and wl.random() < 0.3:
            texts[tid + "s"] = texts[tid].swapcase()       # other-case spelling: flags must be the same on both paths
    tids = sorted(texts)
    enabled = wl.sample(MATCH_OPS, wl.randint(2, len(MATCH_OPS)))
    iter_rate = wl.choice([0.0, 0.25, 0.5])
    cache_rate = wl.choice([0.1, 0.3, 0.5])
    fault_rate = fl.choice([0.0, 0.0, 0.15, 0.3])
    allow_saturate = wl.random() < (0.08 if tier == "quick" else 0.15)
    ntasks = wl.randint(1, 4)
    tasks, hcount, saturated, newcount = [], 0, False, 0
    for t in range(ntasks):
        ops = []
        for _ in range(wl.randint(2, 14)):
            r = wl.random()
            i = wl.choice(ids)
            if r < cache_rate:
                c = wl.random()
                if c < 0.3:
                    ops.append({"op": "compile", "i": i})
                elif c < 0.55:
                    ops.append({"op": "gcp", "i": i, "discard": True, "t": wl.choice(tids)})
                elif c < 0.8:
                    ops.append({"op": "gcp", "i": i, "discard": False, "t": wl.choice(tids)})
                elif c < 0.93:
                    ops.append({"op": "purge"})
                elif allow_saturate and not saturated:
                    ops.append({"op": "saturate"})
                    saturated = True
                elif wl.random() < 0.6 and i in instances:
                    # the instance dies; a new instance with another pattern is created right after it
                    ops.append({"op": "drop", "i": i})
                    nid = "n%d" % newcount
                    newcount += 1
                    nname = wl.choice(PATTERNS)
                    nrec = corpus.recipe_of(nname) if wl.random() < 0.6 else random_pattern(wl)[0]
                    ops.append({"op": "create", "i": nid, "recipe": nrec, "name": nname})
                    ids.append(nid)
                else:
                    ops.append({"op": "gc"})
            elif r < cache_rate + iter_rate * (1 - cache_rate):
                h = "h%d" % hcount
                hcount += 1
                ops.append({"op": "iter_open", "h": h, "i": i, "t": wl.choice(tids), "method": wl.choice(ITER_METHODS)})
                for _ in range(wl.randint(0, 3)):
                    ops.append({"op": "iter_next", "h": h})
                c = wl.random()
                if c < 0.6:
                    ops.append({"op": "iter_drain", "h": h})
                elif c < 0.75:
                    ops.append({"op": "iter_drop", "h": h})
            else:
                ops.append({"op": "match", "method": wl.choice(enabled), "i": i, "t": wl.choice(tids)})
            if fl.random() < fault_rate and ops[-1]["op"] in ("match", "compile", "gcp", "iter_next", "iter_drain"):
                ops[-1]["faults"] = [{"seam": "re", "kind": "alloc_fail", "call": fl.choice([1, 1, 1, 2])}]
        tasks.append(ops)
    # interleave the ops of one iterator handle with other tasks: split tail of a task into another task
    total = sum(len(t) for t in tasks)
    schedule = [sc.randrange(len(tasks)) for _ in range(total)] if sc.random() < 0.9 else []
    return {"property": PROPERTY, "config": {},
            "world": {"instances": instances, "aliases": aliases, "texts": texts},
            "tasks": tasks, "schedule": schedule}


class Handle:
    def __init__(self, gen, inst_id, tid, method):
        self.gen, self.inst_id, self.tid, self.method = gen, inst_id, tid, method
        self.items, self.done, self.dead = [], False, False
        self.bound = None          # "compiled" | "module" once the first next() happened
        self.bound_before_switch = False


def execute(plan, inst, keep_log=False):
    log = EventLog(keep_log)
    world = plan["world"]
    proxy = simre.ReProxy()
    ids = simid.install(inst)
    pre_mod = inst.pre
    real_re_binding = pre_mod._re
    pre_mod._re = proxy
    stats = {"compiled_path": 0, "module_path": 0, "iter_bound_then_switched": 0, "iter_steps": 0,
             "evictions": 0, "alias_ops": 0, "dup_ops": 0, "alloc_fail_fired": 0, "alloc_fail_raised": 0,
             "random_patterns": 0, "instances_skipped": 0, "drops": 0, "creates": 0, "gcp_checked": 0, "purges": 0, "saturates": 0, "match_ops": 0, "live2plus": 0}
    cover = set()
    try:
        objs, texts_of, meta = {}, {}, {}
        for iid in sorted(world["instances"]):
            spec = world["instances"][iid]
            try:
                o = recipes.build(spec["recipe"], inst.ns)
            except Exception as e:                       # noqa: BLE001
                log.add("build_failed", iid, type(e).__name__)
                stats["instances_skipped"] += 1
                continue
            if spec.get("name") == "random":
                stats["random_patterns"] += 1
            objs[iid] = o
            texts_of[iid] = (str(o), o.get_pattern())
            try:
                re.compile(texts_of[iid][0], FLAGS)
            except re.error:
                del objs[iid]
                log.add("invalid_pattern", iid)
                stats["instances_skipped"] += 1
                continue
            meta[iid] = {"compiled": False, "cache": "warm", "dup": "dup_of" in spec}
        for aid, target in sorted(world.get("aliases", {}).items()):
            if target in objs:
                objs[aid] = objs[target]
                texts_of[aid] = texts_of[target]
                meta[aid] = meta[target]
        alias_ids = set(world.get("aliases", {}))
        alias_targets = set(world.get("aliases", {}).values())
        handles = {}
        cache_state = ["warm"]
        pending_memerr = [False]

        def live_on(iid):
            o = objs[iid]
            return [h for h in handles.values() if not h.done and not h.dead and objs.get(h.inst_id) is o]

        def cov(kind, iid, fault):
            m = meta[iid]
            lv = live_on(iid)
            n = len(lv)
            if n >= 2:
                stats["live2plus"] += 1
            oldest = next((h.bound for h in lv if h.bound), "-")
            shared = "alias" if (iid in alias_ids or iid in alias_targets) else ("dup" if m["dup"] else "plain")
            if shared == "alias":
                stats["alias_ops"] += 1
            elif shared == "dup":
                stats["dup_ops"] += 1
            cover.add("|".join((kind, "C" if m["compiled"] else "U", str(min(n, 2)), oldest, cache_state[0],
                                "F" if fault else "-", shared)))

        def invariant():
            for iid, o in objs.items():
                if (str(o), o.get_pattern()) != texts_of[iid]:
                    raise Violation("C11.pattern_changed", "instance %s: str/get_pattern changed from %r to %r"
                                    % (iid, texts_of[iid], (str(o), o.get_pattern())))

        def fault_of(op):
            for f in op.get("faults") or ():
                if f.get("seam") == "re" and f.get("kind") == "alloc_fail":
                    return int(f["call"])
            return None

        def guarded(op, fn):
            """Runs fn under the op's armed fault.  Returns ("ok", value, calls) or ("memerr", None, calls)."""
            fa = fault_of(op)
            before = proxy.fired
            proxy.begin(fa)
            try:
                try:
                    v = fn()
                    st = "ok"
                except MemoryError:
                    v, st = None, "memerr"
            finally:
                calls = proxy.end()
            fired = proxy.fired > before
            if fired:
                stats["alloc_fail_fired"] += 1
            if st == "memerr":
                if not fired:
                    raise Violation("C11.foreign_exception", "%s raised MemoryError with no fault armed" % op["op"])
                stats["alloc_fail_raised"] += 1
            return st, v, calls, fired

        def path_probe(iid, calls):
            if any(c in ("search", "fullmatch", "finditer", "match") for c in calls):
                stats["module_path"] += 1
                return "module"
            stats["compiled_path"] += 1
            return "compiled"

        def step(t, idx, op):
            kind = op["op"]
            if kind == "match":
                iid, tid = op["i"], op["t"]
                if iid not in objs or tid not in world["texts"]:
                    log.add("skip", kind)
                    return
                o, text, method = objs[iid], world["texts"][tid], op["method"]
                cov(method, iid, fault_of(op))
                stats["match_ops"] += 1
                try:
                    st, v, calls, fired = guarded(op, lambda: getattr(o, method)(text))
                except (Violation, HarnessError):
                    raise
                except Exception as e:                   # noqa: BLE001
                    raise Violation("C11.foreign_exception", "%s(%r) on %r raised %s: %s"
                                    % (method, text, texts_of[iid][0], type(e).__name__, e))
                if cache_state[0] == "cold" and calls:
                    cache_state[0] = "warm"
                if st == "ok":
                    path_probe(iid, calls)
                    want = reference(texts_of[iid][0], text, method)
                    if v != want or type(v) is not type(want):
                        raise Violation("C11." + method, "%s(%r) with pattern %r (%s) -> %r, re gives %r"
                                        % (method, text, texts_of[iid][0],
                                           "compiled" if meta[iid]["compiled"] else "not compiled", _cut(v), _cut(want)))
                    if method == "get_matches_and_pos":
                        for s, a, b in v:
                            if text[a:b] != s:
                                raise Violation("C11.position", "source[%d:%d] != %r" % (a, b, s))
                log.add(kind, method, iid, tid, st, digest_of(v))
            elif kind == "compile":
                iid = op["i"]
                if iid not in objs:
                    log.add("skip", kind)
                    return
                cov("compile", iid, fault_of(op))
                st, v, calls, fired = guarded(op, lambda: objs[iid].compile())
                if st == "ok":
                    meta[iid]["compiled"] = True
                log.add(kind, iid, st)
            elif kind == "gcp":
                iid = op["i"]
                if iid not in objs:
                    log.add("skip", kind)
                    return
                cov("gcp_discard" if op["discard"] else "gcp_keep", iid, fault_of(op))
                st, v, calls, fired = guarded(op, lambda: objs[iid].get_compiled_pattern(discard_after=op["discard"]))
                if st == "ok":
                    meta[iid]["compiled"] = not op["discard"]
                    stats["gcp_checked"] += 1
                    # The returned object itself is outside C11's statement (which is about the matching
                    # methods), so a deviation here is recorded as an observation, never as a violation.
                    text = world["texts"].get(op.get("t"), "")
                    try:
                        got = [(m.group(0), m.start(), m.end()) for m in v.finditer(text)]
                    except Exception:                    # noqa: BLE001
                        got = None
                    if got != reference(texts_of[iid][0], text, "get_matches_and_pos"):
                        stats["gcp_object_differs"] = stats.get("gcp_object_differs", 0) + 1
                log.add(kind, iid, op["discard"], st)
            elif kind == "drop":
                iid = op["i"]
                if iid in objs and not any(objs.get(h.inst_id) is objs[iid] and not h.done and not h.dead
                                           for h in handles.values()):
                    o = objs.pop(iid)
                    for k in [k for k, q in objs.items() if q is o]:
                        del objs[k]
                    del o
                    gc.collect()
                    stats["drops"] += 1
                log.add(kind, iid)
            elif kind == "create":
                iid = op["i"]
                try:
                    o = recipes.build(op["recipe"], inst.ns)
                    re.compile(str(o), FLAGS)
                except Exception as e:                   # noqa: BLE001
                    log.add("create_failed", iid, type(e).__name__)
                    return
                objs[iid] = o
                texts_of[iid] = (str(o), o.get_pattern())
                meta[iid] = {"compiled": False, "cache": "warm", "dup": False}
                stats["creates"] += 1
                log.add(kind, iid, str(o))
            elif kind == "purge":
                inst.ns["Pregex"].purge()
                cache_state[0] = "cold"
                stats["purges"] += 1
                log.add(kind)
            elif kind == "saturate":
                simre.saturate(plan.get("origin", {}).get("run_index", 0))
                if simre.cache_size() >= getattr(re, "_MAXCACHE", 512):
                    stats["evictions"] += 1
                cache_state[0] = "saturated"
                stats["saturates"] += 1
                log.add(kind)
            elif kind == "gc":
                gc.collect()
                log.add(kind)
            elif kind == "iter_open":
                iid, tid = op["i"], op["t"]
                if iid not in objs or tid not in world["texts"]:
                    log.add("skip", kind)
                    return
                cov("iter_open", iid, None)
                g = getattr(objs[iid], op["method"])(world["texts"][tid])
                handles[op["h"]] = Handle(g, iid, tid, op["method"])
                log.add(kind, op["h"], iid, tid, op["method"])
            elif kind in ("iter_next", "iter_drain"):
                h = handles.get(op["h"])
                if h is None or h.done or h.dead or h.inst_id not in objs:
                    log.add("skip", kind)
                    return
                iid = h.inst_id
                cov(kind, iid, fault_of(op))
                first = h.bound is None
                if not first and h.bound != ("compiled" if meta[iid]["compiled"] else "module"):
                    if not h.bound_before_switch:
                        h.bound_before_switch = True
                        stats["iter_bound_then_switched"] += 1

                def adv():
                    while True:
                        try:
                            h.items.append(next(h.gen))
                            stats["iter_steps"] += 1
                            if len(h.items) > 100000:
                                raise HarnessError("runaway iterator")
                        except StopIteration:
                            h.done = True
                        if h.done or kind == "iter_next":
                            return
                try:
                    st, v, calls, fired = guarded(op, adv)
                except (Violation, HarnessError):
                    raise
                except Exception as e:                   # noqa: BLE001
                    raise Violation("C11.foreign_exception", "%s on %r raised %s: %s"
                                    % (h.method, texts_of[iid][0], type(e).__name__, e))
                if st == "memerr":
                    h.dead = True                         # a generator that raised is finished
                else:
                    if first:
                        h.bound = path_probe(iid, calls)
                    want = reference(texts_of[iid][0], world["texts"][h.tid], h.method)
                    ok = (h.items == want) if h.done else (h.items == want[:len(h.items)])
                    if not ok:
                        raise Violation("C11." + h.method, "%s(%r) with pattern %r yielded %r%s, re gives %r"
                                        % (h.method, world["texts"][h.tid], texts_of[iid][0], _cut(h.items),
                                           " (exhausted)" if h.done else " (so far)", _cut(want)))
                log.add(kind, op["h"], st, len(h.items), h.done, digest_of(h.items))
            elif kind == "iter_drop":
                h = handles.pop(op["h"], None)
                if h is not None:
                    h.gen.close()
                log.add(kind, op["h"])
            else:
                raise HarnessError("unknown op %r" % kind)
            invariant()

        s = sched.run(plan, step)
    finally:
        pre_mod._re = real_re_binding
    stats["steps"], stats["switches"] = s["steps"], s["switches"]
    stats["re_calls"] = proxy.total
    stats["simid_recycled"] = ids.recycled
    nontrivial = stats["alloc_fail_fired"] > 0 or stats["iter_bound_then_switched"] > 0 or \
        (stats["compiled_path"] > 0 and stats["module_path"] > 0 and s["switches"] > 0) or stats["evictions"] > 0
    return {"digest": log.digest(), "stats": stats, "faults_fired": {"alloc_fail": stats["alloc_fail_fired"],
                                                                     "purge": stats["purges"],
                                                                     "saturate": stats["saturates"]},
            "cover": sorted(cover), "nontrivial": nontrivial, "log": log.lines}


def _cut(x, n=200):
    s = repr(x)
    return s if len(s) <= n else s[:n] + "..."


def shrink_candidates(plan):
    import copy
    w = plan["world"]
    used_i = {op.get("i") for ops in plan["tasks"] for op in ops if "i" in op}
    used_t = {op.get("t") for ops in plan["tasks"] for op in ops if "t" in op}
    targets = {w["aliases"][a] for a in w.get("aliases", {}) if a in used_i}
    keep_i = {i for i in w["instances"] if i in used_i or i in targets}
    if set(w["instances"]) - keep_i or set(w["texts"]) - used_t or set(w.get("aliases", {})) - used_i:
        q = copy.deepcopy(plan)
        q["world"]["instances"] = {k: v for k, v in w["instances"].items() if k in keep_i}
        q["world"]["texts"] = {k: v for k, v in w["texts"].items() if k in used_t}
        q["world"]["aliases"] = {k: v for k, v in w.get("aliases", {}).items() if k in used_i}
        yield q
    for tid in sorted(w["texts"]):
        text = w["texts"][tid]
        n = len(text)
        chunk = max(1, n // 2)
        while n and chunk >= 1:
            i = 0
            while i < n:
                q = copy.deepcopy(plan)
                q["world"]["texts"][tid] = text[:i] + text[i + chunk:]
                yield q
                i += chunk
            if chunk == 1:
                break
            chunk //= 2
    # an alias can often be replaced by its target
    for a, tgt in sorted(w.get("aliases", {}).items()):
        q = copy.deepcopy(plan)
        for ops in q["tasks"]:
            for op in ops:
                if op.get("i") == a:
                    op["i"] = tgt
        yield q


EVIDENCE = {
    "rule": "Runs are generated from (VERIF_SEED, 'C11', run index): 1-4 patterns (65 % from the corpus of DSL-built and hand-written "
            "patterns, 35 % random DSL trees without nested quantifiers), an "
            "optional equal-text duplicate and an optional alias, 2-5 texts built from the patterns' witnesses, 1-4 tasks of "
            "matching calls / lazy iterators / cache operations, a seeded schedule, and allocation faults at the re seam. "
            "Distinct = distinct event digest. Non-trivial = an allocation fault actually fired, or a live iterator that was "
            "bound to one path (compiled / module) was advanced after the instance switched to the other, or both paths were "
            "taken in a run with task switches, or a cache eviction happened.",
    "measure": "(op kind, compiled? of the target, #live iterators on it {0,1,2+}, binding of the oldest live iterator, "
               "re cache {cold,warm,saturated}, fault pending?, target is alias/duplicate/plain)",
    "probes": ["random_patterns", "drops", "creates", "compiled_path", "module_path", "iter_bound_then_switched", "evictions", "alias_ops", "dup_ops",
               "alloc_fail_raised", "gcp_checked", "live2plus"],
    "fault_kinds": ["alloc_fail", "purge", "saturate"],
    "components": {
        "real": ["all of pregex (from the source tree under test)", "re (matching, compilation, its process-global cache)"],
        "stub": ["the module object pregex binds as _re is a pass-through proxy that counts calls and can raise MemoryError",
                 "id() as seen from pregex modules (SimId: the number of a dead object is recycled for the next new one)"],
    },
    "assumptions": [
        "sampling: a clean batch is evidence, not proof",
        "reference matcher = CPython's re on str(p) with MULTILINE|DOTALL (trusted)",
        "an op during which an injected MemoryError fired may raise MemoryError; every later op must again equal the reference",
        "allocation failure is injected at the re seam only",
        "thread interleavings are out of scope: histories are sequences of calls",
    ],
}
