"""Shared executor for C06 / C07: one class recipe evaluated in the model and in the
implementation under the real hash order of this interpreter and under several order keys
of the set-order seam."""
from sim import classmodel as cm
from sim import simset
from sim.kernel import EventLog, Violation, digest_of

ANCHORS = list("\\]^[-/$.(){}?+*|") + list("abcyzABYZ0189_") + list("!#%&,:;<=>@~\"' \n\t") + \
    ["é", "ß", "Ж", "Ω", "ώ", "Ά", "中", "가", "😀", "\x00", "\x7f", "\U0010ffff", "\ud800", "\udfff", "\uffff", "ӿ", "֐"]
NAMED = ["Any" + b for b in cm.NAMED] + ["AnyBut" + b for b in cm.NAMED]
TOKS = sorted(cm.TOKENS)


def palette(rng):
    anchors = rng.sample(ANCHORS, rng.randint(3, 6))
    if rng.random() < 0.3:
        anchors.append(cm.TOKENS[rng.choice(TOKS)])
    pal = []
    for a in anchors:
        for d in (0, 0, 1, -1, 2, -2, 3, -3, 4):          # wide enough for two 3-character ranges with a one-character gap
            c = ord(a) + d
            if 0 <= c <= 0x10FFFF:
                pal.append(chr(c))
    return pal


def shorthand_leaf(rng, neg):
    """Leaves whose bracket set is exactly the set of a shorthand (\\d, \\s, \\w parts): the simplification
    paths of __process only run for these."""
    pre = "AnyBut" if neg else "Any"
    ws = [" ", "\t", "\n", "\r", "\x0b", "\x0c"]
    return rng.choice([
        [pre + "Between", "0", "9"],
        [pre + "From"] + list("0123456789"),
        [pre + "From"] + ws,
        [pre + "From"] + ws + list("0123456789"),
        [pre + "Between", "\t", "\r"],
        [pre + "Between", "a", "z"],
        [pre + "Between", "A", "Z"],
        [pre + "From", "_"],
        [pre + "From", " "],
    ])


def arg(rng, pal, tok_rate=0.15):
    if rng.random() < tok_rate:
        if rng.random() < 0.25:
            return ["lit", rng.choice(pal)]          # a one-character Pregex, accepted like a token
        return ["tok", rng.choice(TOKS)]
    return rng.choice(pal)


def char_of(a):
    if isinstance(a, list):
        return a[1] if a[0] == "lit" else cm.TOKENS[a[1]]
    return a


def order_keys(rng, n):
    keys = ["sorted", "reverse"]
    while len(keys) < n:
        keys.append(rng.randrange(1, 1 << 20))
    return keys[:n]


def run_recipe(plan, inst, prop, keep_log=False):
    log = EventLog(keep_log)
    recipe = plan["program"]
    cfgs = [("real", None)] + [("shim", k) for k in plan["config"].get("order_keys", [])]
    texts, stats = set(), {"configs": 0, "shim_iterations": 0, "shim_noncanonical": 0, "set_orders_seen": 0,
                           "exceptions": 0, "classes": 0, "full_scans": 0}
    first_bad, outcome_real, outcomes = None, None, set()
    scans0 = cm.SCANS[0]
    for kind, key in cfgs:
        if kind == "shim":
            simset.configure(key, track_orders=True)
            simset.install(inst.classes)
        try:
            pool, mpool, res = [], [], None
            for li, let in enumerate(plan.get("lets", [])):
                out = {}
                lres = cm.compare(let, inst.ns, pool=pool, mpool=mpool, out=out)
                pool.append(out.get("obj"))
                mpool.append(out.get("model"))
                stats["lets"] = stats.get("lets", 0) + 1
                if not lres["ok"] and res is None:
                    res = dict(lres, detail="let %d = %s: %s" % (li, show(let), lres["detail"]))
            if res is None:
                res = cm.compare(recipe, inst.ns, pool=pool, mpool=mpool)
                # operands must still denote what they denoted when they were bound
                for li, (o, mv) in enumerate(zip(pool, mpool)):
                    if o is None or mv is None or mv[0] != "cls" or not res["ok"]:
                        continue
                    s2, prob = cm.matched_set(str(o))
                    want = cm.model_matched(mv)
                    if s2 is None or cm.iv.difference(cm.iv.symdiff(s2, want), cm.zone_for(str(o), True)):
                        res = {"outcome": res["outcome"], "ok": False, "rule": "operand_changed", "pattern": str(o),
                               "detail": "let %d = %s no longer denotes its set after being used as an operand (now %r)"
                                         % (li, show(plan["lets"][li]), str(o))}
                    stats["operands_rechecked"] = stats.get("operands_rechecked", 0) + 1
        finally:
            if kind == "shim":
                simset.uninstall(inst.classes)
                c = simset.counters()
                stats["shim_iterations"] += c["iterations"]
                stats["shim_noncanonical"] += c["noncanonical"]
                stats["set_orders_seen"] += c["orders"]
        stats["configs"] += 1
        if res["pattern"] is not None:
            texts.add(res["pattern"])
        outcomes.add(res["outcome"])
        log.add(kind, key, res["outcome"], res["pattern"], res["ok"])
        if kind == "real":
            outcome_real = res["outcome"]
        if not res["ok"] and first_bad is None:
            first_bad = (kind, key, res)
    if first_bad is not None:
        kind, key, res = first_bad
        where = "under this interpreter's hash order (PYTHONHASHSEED=%s)" % plan["config"].get("hashseed") \
            if kind == "real" else "under set-order key %r" % (key,)
        raise Violation("%s.%s" % (prop, res["rule"]), "%s %s: %s" % (show(recipe), where, res["detail"]))
    if len(outcomes) > 1:
        raise Violation("%s.order_dependent" % prop, "%s: outcomes differ across set orders: %s" % (show(recipe), sorted(outcomes)))
    if outcome_real.startswith("exc:"):
        stats["exceptions"] += 1
    else:
        stats["classes"] += 1
    stats["distinct_texts"] = len(texts)
    stats["full_scans"] = cm.SCANS[0] - scans0
    stats["steps"] = stats["configs"]
    return {"digest": log.digest(), "stats": stats, "faults_fired": {}, "outcome": outcome_real,
            "nontrivial": stats["shim_noncanonical"] > 0, "texts": len(texts), "log": log.lines}


def show(r):
    """Compact Python-like rendering of a class recipe."""
    if not isinstance(r, list):
        return repr(r)
    h = r[0]
    if h == "chr":
        return repr(r[1])
    if h == "lit":
        return "Pregex(%r)" % r[1]
    if h == "empty":
        return "Pregex()"
    if h == "ref":
        return "let%d" % r[1]
    if h == "tok":
        return r[1] + "()"
    if h == "named":
        return "%s(%s)" % (r[1], "is_global=True" if len(r) > 2 and r[2] else "")
    if h == "Any":
        return "Any()"
    if h == "inv":
        return "~" + show(r[1])
    if h == "or":
        return "(%s | %s)" % (show(r[1]), show(r[2]))
    if h == "sub":
        return "(%s - %s)" % (show(r[1]), show(r[2]))
    if h == "list":
        return "[%s]" % ", ".join(show(x) for x in r[1:])
    return "%s(%s)" % (h, ", ".join(show(x) for x in r[1:]))


def subrecipes(r):
    if isinstance(r, list) and r and r[0] in ("or", "sub", "inv"):
        for x in r[1:]:
            if isinstance(x, list) and x[0] not in ("chr", "tok", "lit"):
                yield x
            yield from subrecipes(x)


def shrink_recipe(r):
    """Yields simpler variants of a class recipe (one step)."""
    if not isinstance(r, list) or not r:
        return
    h = r[0]
    if h in ("or", "sub", "inv"):
        for x in r[1:]:
            if isinstance(x, list) and x[0] not in ("chr", "tok", "lit"):
                yield x
        for i in range(1, len(r)):
            for v in shrink_recipe(r[i]):
                yield r[:i] + [v] + r[i + 1:]
    elif h in ("AnyFrom", "AnyButFrom"):
        if len(r) > 2:
            for i in range(1, len(r)):
                yield r[:i] + r[i + 1:]
        for i in range(1, len(r)):
            if isinstance(r[i], list) and r[i][0] in ("tok", "lit"):
                yield r[:i] + [char_of(r[i])] + r[i + 1:]
            elif isinstance(r[i], str) and r[i] not in "ab" and len(r[i]) == 1:
                yield r[:i] + ["a"] + r[i + 1:]
    elif h in ("AnyBetween", "AnyButBetween"):
        for i in (1, 2):
            if isinstance(r[i], list) and r[i][0] in ("tok", "lit"):
                yield r[:i] + [char_of(r[i])] + r[i + 1:]
    elif h == "named":
        if len(r) > 2:
            yield r[:2]
        if r[1] not in ("AnyDigit", "AnyButDigit"):
            yield ["named", "AnyButDigit" if r[1].startswith("AnyBut") else "AnyDigit"]


def shrink_candidates(plan):
    import copy
    keys = plan["config"].get("order_keys", [])
    if len(keys) > 0:
        q = copy.deepcopy(plan)
        q["config"]["order_keys"] = []
        yield q
        for k in keys:
            if len(keys) > 1:
                q = copy.deepcopy(plan)
                q["config"]["order_keys"] = [k]
                yield q
        for canon in ("sorted", "reverse"):
            if keys != [canon]:
                q = copy.deepcopy(plan)
                q["config"]["order_keys"] = [canon]
                yield q
    for v in shrink_recipe(plan["program"]):
        q = copy.deepcopy(plan)
        q["program"] = v
        yield q
    lets = plan.get("lets", [])
    if lets:
        from sim import recipes
        # inline every let (no sharing)
        q = copy.deepcopy(plan)
        q["program"] = recipes.expand(plan["program"], lets)
        q["lets"] = []
        yield q
        # drop the last let if unused
        used = recipes.refs([plan["program"]] + lets)
        if len(lets) - 1 not in used:
            q = copy.deepcopy(plan)
            q["lets"] = lets[:-1]
            yield q
        for i, let in enumerate(lets):
            for v in shrink_recipe(let):
                q = copy.deepcopy(plan)
                q["lets"][i] = v
                yield q


SPECIALS = list("\\]^[-/$.(){}?+*|") + ["\n", "\t", " ", "\x00", "\U0010ffff", "\ud800", "\udfff", "0", "9", "a", "z", "A", "Z", "_"]


def _nb(c, d):
    o = ord(c) + d
    return chr(o) if 0 <= o <= 0x10FFFF else None


def systematic_constructors():
    """A small, fully enumerated family run on every invocation (the first run indices): every special character as a lone
    member, as either end of two- and three-character ranges, and next to its neighbours - the char/range boundary cases."""
    out = []
    for s_ in SPECIALS:
        p1, p2, m1, m2 = _nb(s_, 1), _nb(s_, 2), _nb(s_, -1), _nb(s_, -2)
        for pre in ("Any", "AnyBut"):
            out.append([pre + "From", s_])
            for hi in (p1, p2):
                if hi:
                    out.append([pre + "Between", s_, hi])
            for lo in (m1, m2):
                if lo:
                    out.append([pre + "Between", lo, s_])
            if p1:
                out.append([pre + "From", s_, p1])
                out.append([pre + "From", p1, s_, s_])
            if p1 and m1:
                out.append([pre + "From", m1, s_, p1])
            if p2:
                out.append([pre + "From", s_, p2])
    for t in TOKS:
        c = cm.TOKENS[t]
        out.append(["tok", t])
        out.append(["AnyFrom", ["tok", t]])
        out.append(["AnyButFrom", ["tok", t], "a"])
        if _nb(c, 1):
            out.append(["AnyBetween", ["tok", t], _nb(c, 1)])
        if _nb(c, -2):
            out.append(["AnyButBetween", _nb(c, -2), ["tok", t]])
    out += large_constructors()
    return out


def _scatter(base, n, step=2):
    return [chr(base + step * i) for i in range(n)]


def large_constructors():
    """Classes with many loose members (counts around 64 / 128 / 192 / 256 and their successors): size-triggered fast paths
    and block-wise loops in the char-to-range merging only run for these."""
    out = []
    for n in (63, 64, 65, 66, 100, 127, 128, 129, 130, 193, 257):
        for base, step in ((0x100, 2), (0x4E00, 3)):
            cs = _scatter(base, n, step)
            out.append(["AnyFrom"] + cs)
            out.append(["AnyButFrom"] + list(reversed(cs)))
    # many members of which some are adjacent (runs of 1, 2 and 3) and the highest / lowest are isolated
    for n in (65, 129):
        cs = []
        for i in range(n):
            cs.append(chr(0x400 + 4 * i))
            if i % 3 == 1:
                cs.append(chr(0x400 + 4 * i + 1))
            if i % 9 == 4:
                cs.append(chr(0x400 + 4 * i + 2))
        out.append(["AnyFrom"] + cs[:n])
        out.append(["AnyFrom"] + cs)
    return out


def systematic_algebra():
    """Enumerated boundary cases of the algebra: a special character against ranges that start / end / sit next to it."""
    out = []
    for s_ in SPECIALS:
        p1, p2, m1, m2 = _nb(s_, 1), _nb(s_, 2), _nb(s_, -1), _nb(s_, -2)
        if not (p1 and p2 and m1 and m2):
            continue
        rng3 = ["AnyBetween", m1, p1]
        rng5 = ["AnyBetween", m2, p2]
        out += [["sub", rng3, ["chr", s_]], ["sub", rng5, ["chr", s_]], ["sub", rng5, rng3], ["sub", rng3, rng5],
                ["or", ["AnyFrom", m1], ["AnyFrom", s_]], ["or", ["AnyFrom", p1, m1], ["chr", s_]], ["or", ["chr", s_], rng3],
                ["sub", ["AnyFrom", m1, s_, p1], ["AnyBetween", s_, p2]], ["inv", ["AnyFrom", s_, p1]], ["inv", ["inv", ["AnyFrom", s_]]],
                ["sub", ["AnyBetween", s_, p1], ["chr", p1]], ["sub", ["AnyBetween", s_, p2], ["AnyFrom", s_, p2]],
                ["or", ["AnyButFrom", s_], ["AnyButBetween", m2, m1]], ["sub", ["AnyButBetween", m2, p2], ["AnyButFrom", s_]],
                ["sub", ["chr", s_], ["AnyFrom", s_, p1]], ["sub", ["AnyFrom", s_], ["chr", s_]]]
    # gap geometry: two ranges of three characters separated by one / two characters, unioned and subtracted
    for s_ in SPECIALS:
        q = [_nb(s_, d) for d in (-3, -1, 1, 3, 2, 4)]
        if None in q:
            continue
        lo, g1, g2, g2b = ["AnyBetween", q[0], q[1]], ["AnyBetween", q[2], q[3]], ["AnyBetween", q[4], q[5]], None
        out += [["or", lo, g1], ["or", g1, lo], ["or", lo, g2], ["sub", ["AnyBetween", q[0], q[5]], ["chr", s_]],
                ["sub", ["or", lo, g1], ["AnyFrom", q[1], q[2]]], ["sub", ["AnyFrom", q[1], q[3], s_], g1],
                ["sub", ["AnyFrom", q[0], q[1], q[2]], lo], ["or", ["AnyFrom", s_], ["or", lo, g1]]]
    # "anagram" histories: two classes whose texts are made of the same characters grouped differently ([a-dg] then
    # [ad-g]), built one after the other in the same module instance (a memo keyed by a lossy digest of the text mixes them up)
    for s_ in SPECIALS:
        lo, hi = _nb(s_, -3), _nb(s_, 3)
        if lo is None or hi is None:
            continue
        first = ["or", ["AnyBetween", lo, s_], ["chr", hi]]
        second = ["or", ["AnyBetween", s_, hi], ["chr", lo]]
        out.append({"lets": [first], "program": second})
        out.append({"lets": [second], "program": first})
        out.append({"lets": [["AnyFrom", lo, s_, hi], ["sub", ["AnyBetween", lo, hi], ["chr", s_]]], "program": ["AnyBetween", lo, hi]})
    # every pairing of operand kinds under | and -, in both orders: the exception paths and the Any / global-word rules
    kinds = [["Any"], ["named", "AnyDigit"], ["AnyFrom", "a", "5"], ["named", "AnyButDigit"], ["AnyButFrom", "a", "5"],
             ["named", "AnyWordChar", True], ["named", "AnyButWordChar", True], ["chr", "5"], ["tok", "Newline"], ["lit", "5"],
             ["named", "AnyWordChar"], ["AnyBetween", "0", "9"]]
    for a in kinds:
        for b in kinds:
            if a[0] in ("chr", "tok", "lit") and b[0] in ("chr", "tok", "lit"):
                continue                              # no class operand: not a pregex call
            out.append(["or", a, b])
            out.append(["sub", a, b])
        if a[0] not in ("chr", "tok", "lit"):
            out.append(["inv", a])
            out.append(["inv", ["inv", a]]) if a != ["Any"] else None
    out += large_algebra()
    out += edge_algebra()
    return out


def edge_algebra():
    """The two ends of the code-point range (the other families need neighbours on both sides and skip them): ranges that
    start at U+0000 / end at U+10FFFF, subtracted and unioned so that the remainder touches the end."""
    out = []
    for s_, d in (("\x00", 1), ("\U0010ffff", -1)):
        n1, n2, n3, n5 = _nb(s_, d), _nb(s_, 2 * d), _nb(s_, 3 * d), _nb(s_, 5 * d)
        rng_ = (lambda a, b: ["AnyBetween", a, b]) if d == 1 else (lambda a, b: ["AnyBetween", b, a])
        far = "z" if d == 1 else "\U0010ff00"
        for r in (rng_(s_, n3), rng_(s_, far), rng_(s_, n1)):
            out += [["sub", r, ["chr", s_]], ["sub", r, ["AnyFrom", s_]], ["sub", r, ["AnyFrom", s_, n1]], ["sub", r, rng_(s_, n1)],
                    ["sub", r, ["AnyFrom", n1]], ["sub", r, rng_(s_, n5)], ["or", r, ["chr", s_]], ["inv", r]]
        out += [["sub", ["AnyFrom", s_, n2], ["chr", s_]], ["sub", ["AnyFrom", s_, n1, n2], rng_(s_, n1)], ["sub", ["Any"], ["chr", s_]],
                ["sub", ["Any"], rng_(s_, n3)], ["or", ["AnyFrom", s_], ["AnyFrom", n1]], ["or", rng_(n1, n3), ["chr", s_]],
                ["sub", ["AnyButFrom", s_, n2], ["AnyButFrom", s_]], ["sub", ["AnyBut" + rng_(s_, n3)[0][3:]] + rng_(s_, n3)[1:], ["AnyButFrom", s_]],
                ["sub", rng_(s_, far), rng_(n1, n3)], ["sub", ["or", rng_(s_, n3), ["AnyBetween", "a", "f"]], ["AnyFrom", s_, "a", "f"]]]
    return out


def large_algebra():
    """Operands with many loose members against each other and against a few ranges whose starts / ends / insides
    coincide with some of those members (size-triggered fast paths: sorted merges, binary searches)."""
    out = []
    for n in (40, 65, 100):
        a = ["AnyFrom"] + _scatter(0x100, n, 4)
        b = ["AnyFrom"] + _scatter(0x102, n, 4)
        out += [["or", a, b], ["or", b, a], ["sub", ["or", a, b], b], ["inv", ["or", a, b]],
                ["sub", a, ["AnyFrom"] + _scatter(0x100, n - 1, 4)],                     # only the highest member is left
                ["sub", a, ["AnyFrom"] + _scatter(0x104, n - 1, 4)],                     # only the lowest member is left
                ["sub", a, a[:1] + list(reversed(a[1:]))]]                               # nothing is left
        cs = _scatter(0x4E00, n, 5)
        big = ["AnyFrom"] + cs
        lo, mid, hi = cs[0], cs[n // 2], cs[-1]
        r_start = ["AnyBetween", mid, chr(ord(mid) + 3)]                                 # a member is the start of the range
        r_end = ["AnyBetween", chr(ord(hi) - 3), hi]                                     # a member is the end of the range
        r_in = ["AnyBetween", chr(ord(lo) - 2), chr(ord(lo) + 2)]                        # a member is inside the range
        three = ["or", ["or", r_start, r_end], r_in]
        out += [["sub", big, three], ["sub", big, r_start], ["sub", big, r_end], ["or", big, three],
                ["sub", big, ["or", ["named", "AnyCJK"], ["named", "AnyDigit"]]] if "CJK" in cm.NAMED else ["sub", big, r_in],
                ["sub", big, ["AnyBetween", lo, hi]],                                    # a covering range: nothing is left
                ["sub", ["or", big, ["AnyBetween", "a", "f"]], ["or", three, ["AnyBetween", "c", "d"]]],
                ["sub", ["AnyButFrom"] + cs, ["AnyButFrom"] + cs[1:]]]
    return out
