"""C07 - class union, subtraction and negation are exact set algebra, whatever the operand
order and whatever the order in which Python iterates the sets the algebra is built from.

System under simulation: the class algebra of pregex with the set-iteration order (the only
nondeterminism in it) owned by the simulator: each expression runs under the real hash order
of a worker interpreter started with an explicit PYTHONHASHSEED and under several order keys
of the `set` seam.  Oracle: the bracket-set model (interval sets + negation flag), membership
read off the emitted pattern over all 1 114 112 code points.
"""
from checks import classcommon as cc
from sim.kernel import stream

PROPERTY = "C07"
SHRINK_SECONDS = 30.0


def leaf(rng, neg, pal):
    pre = "AnyBut" if neg else "Any"
    k = rng.random()
    if k < 0.06:
        return cc.shorthand_leaf(rng, neg)
    if k < 0.4:
        return [pre + "From"] + [cc.arg(rng, pal) for _ in range(rng.randint(1, 5))]
    if k < 0.72:
        for _ in range(20):
            a, b = cc.arg(rng, pal), cc.arg(rng, pal)
            if cc.char_of(a) < cc.char_of(b):
                return [pre + "Between", a, b]
        return [pre + "Between", "a", "c"]
    if k < 0.75 and not neg:
        return ["Any"]
    if k < 0.78:
        return ["named", pre + "WordChar", True]
    return ["named", pre + rng.choice(list(cc.cm.NAMED))]


def expr(rng, d, neg, pal):
    if d <= 0:
        return leaf(rng, neg, pal)
    k = rng.random()
    if k < 0.34:
        return ["or", expr(rng, d - 1, neg, pal), expr(rng, d - 1, neg, pal)]
    if k < 0.68:
        right = leaf(rng, neg, pal) if rng.random() < 0.6 else expr(rng, d - 1, neg, pal)
        return ["sub", expr(rng, d - 1, neg, pal), right]
    if k < 0.80:
        return ["inv", expr(rng, d - 1, not neg, pal)]
    if k < 0.84:
        return [rng.choice(["or", "sub"]), expr(rng, d - 1, neg, pal), expr(rng, d - 1, not neg, pal)]
    o = ["chr", rng.choice(pal)] if rng.random() < 0.6 else (["tok", rng.choice(cc.TOKS)] if rng.random() < 0.8 else ["lit", rng.choice(pal)])
    if rng.random() < 0.5:
        return [rng.choice(["or", "sub"]), expr(rng, d - 1, neg, pal), o]
    return [rng.choice(["or", "sub"]), o, expr(rng, d - 1, neg, pal)]


def generate(run_seed, tier):
    wl, cf = stream(run_seed, "workload"), stream(run_seed, "order")
    pal = cc.palette(wl)
    depth = wl.choice([1, 1, 2, 2, 3, 3, 4])
    r = expr(wl, depth, wl.random() < 0.3, pal)
    if wl.random() < 0.08:
        r = ["inv", ["inv", r]]
    nkeys = 6 if tier == "quick" else 10
    plan = {"property": PROPERTY, "program": r, "config": {"order_keys": cc.order_keys(cf, nkeys)}}
    if wl.random() < 0.35:
        # a small history over shared operands: let-bound classes reused by later expressions
        lets, mpool = [], []
        neg = wl.random() < 0.25
        for _ in range(wl.randint(1, 4)):
            cand = with_refs(wl, expr(wl, wl.choice([0, 1, 1, 2]), neg, pal), len(lets), mpool, neg)
            try:
                mv = cc.cm.model_eval(cand, mpool)
            except cc.cm.ModelExc:
                continue
            lets.append(cand)
            mpool.append(mv)
        if lets:
            plan["lets"] = lets
            plan["program"] = with_refs(wl, expr(wl, wl.choice([1, 1, 2]), neg, pal), len(lets), mpool, neg, force=True)
    return plan


def with_refs(rng, r, n, mpool, neg, force=False):
    """Replaces some class-valued sub-recipes by references to let-bound classes of the same polarity."""
    ok = [i for i in range(n) if mpool[i][0] == "cls" and mpool[i][2] == neg and mpool[i][3] != "any"]
    if not ok:
        return r

    def walk(x, polarity):
        if not isinstance(x, list) or not x or x[0] in ("chr", "tok", "lit"):
            return x
        if x[0] in ("or", "sub"):
            return [x[0]] + [sub(y, polarity) for y in x[1:]]
        if x[0] == "inv":
            return ["inv", sub(x[1], not polarity)]
        return x

    def sub(y, polarity):
        if isinstance(y, list) and y and y[0] not in ("chr", "tok", "lit") and polarity == neg and rng.random() < 0.5:
            return ["ref", rng.choice(ok)]
        return walk(y, polarity)
    out = walk(r, neg)
    if force and not cc_refs(out):
        out = [rng.choice(["or", "sub"]), ["ref", rng.choice(ok)], out if rng.random() < 0.7 else ["ref", rng.choice(ok)]]
    return out


def cc_refs(r):
    from sim import recipes
    return recipes.refs(r)


def execute(plan, inst, keep_log=False):
    res = cc.run_recipe(plan, inst, PROPERTY, keep_log)
    r = plan["program"]
    res["cover"] = ["|".join((r[0], _kind(r[1]) if len(r) > 1 else "-", _kind(r[2]) if len(r) > 2 else "-",
                              res["outcome"][:4] if not res["outcome"].startswith("exc:") else res["outcome"],
                              str(min(res["texts"], 4))))]
    return res


def _kind(x):
    if isinstance(x, list) and x:
        return x[0] if x[0] != "named" else ("gword" if len(x) > 2 and x[2] else "named")
    return "str"


shrink_candidates = cc.shrink_candidates

EVIDENCE = {
    "rule": "Each run is one class expression of depth <= 4 over all constructors, |, -, ~, bare characters and tokens on "
            "either side, Any, global word classes and mixed regular/negated operands; characters come from a per-run palette "
            "of 3-6 anchors (bracket/regex metacharacters, range-boundary letters and digits, punctuation, control, non-ASCII, "
            "astral, U+0000, U+10FFFF, a lone surrogate) and their +-1/+-2 neighbours, so that equal-start, equal-end, covering, "
            "covered, adjacent and pair-range geometries are frequent. It is evaluated under the real hash order of the worker "
            "interpreter (explicit PYTHONHASHSEED; every run index under >= 2 different seeds) and under 6 (quick) / 10 "
            "(thorough) order keys of the set seam, each time against the bracket-set model over all 0x110000 code points. "
            "Distinct = distinct event digest; non-trivial = at least one set iteration in a shim configuration used a "
            "non-canonical (not sorted) order.",
    "measure": "(root operator, kinds of its operands, outcome class, number of distinct emitted texts across configurations)",
    "probes": ["lets", "operands_rechecked", "shim_noncanonical", "set_orders_seen", "exceptions", "classes", "full_scans"],
    "fault_kinds": [],
    "components": {
        "real": ["all of pregex", "re", "the set algorithms (union/difference/... are the builtin ones)"],
        "stub": ["iteration order of the sets built in pregex.core.classes in shim configurations (real hash order in the "
                 "un-shimmed configuration of every run)"],
    },
    "assumptions": [
        "sampling over inputs: expressions are a seeded workload, only the configuration (set order / hash seed) dimension is swept "
        "systematically",
        "code points that only the Unicode-aware meaning of a shorthand (\\d \\s \\w) occurring in the emitted text adds are not compared",
        "negated classes: | and - act on the excluded (bracket) sets, as documented",
        "set literals and comprehensions are reached only through the real PYTHONHASHSEED configurations, not through the shim",
    ],
}


SYSTEMATIC = cc.systematic_algebra()


def generate_indexed(index, run_seed, tier):
    """The first len(SYSTEMATIC) run indices are an enumerated family of boundary cases; the rest is seeded sampling."""
    if index < len(SYSTEMATIC):
        cf = stream(run_seed, "order")
        entry = SYSTEMATIC[index]
        plan = {"property": PROPERTY, "program": entry["program"] if isinstance(entry, dict) else entry,
                "config": {"order_keys": cc.order_keys(cf, 6 if tier == "quick" else 10), "systematic": True}}
        if isinstance(entry, dict) and entry.get("lets"):
            plan["lets"] = entry["lets"]
        return plan
    return generate(run_seed, tier)
