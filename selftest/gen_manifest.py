#!/venv/bin/python
"""Regenerates MANIFEST.json from the tables below (single source of truth for texts)."""
import json
import os

ROOT = os.path.dirname(os.path.dirname(os.path.abspath(__file__)))

CHECKS = {
    "C14": ("§4", "deterministic simulation: simulated file system behind open()/os.stat (short reads, split UTF-8, EINTR, EIO, "
                   "ENOENT/EACCES/EISDIR, file versions on a simulated clock), seeded task interleaving with lazy iterators, "
                   "differential oracle path-form == text-form + window formula",
            "Seeded search over schedules x fault plans x contents for all 19 is_path methods; every violation is minimised and replayed "
            "in a fresh interpreter. Exploration level: sampling, not proof; it reaches what the tests cannot (every method x content "
            "class x fault kind x buffer size, files rewritten between creation and consumption of an iterator).",
            "Trusted: CPython io/re. Reference text is an independent TextIOWrapper decoding; CR/BOM readings both accepted; under hard "
            "I/O faults only a wrong returned value is a violation."),
    "C11": ("§3", "deterministic simulation: seeded interleaving of matching calls, lazy iterators and cache operations (compile, "
                   "get_compiled_pattern, purge, cache saturation) with allocation faults at the re seam; oracle = re on str(p)",
            "Every matching op is compared with one fixed reference in every reachable cache state (compiled?, live iterators and what "
            "they are bound to, re cache cold/warm/saturated, pending fault, alias/duplicate). Exploration level.",
            "Trusted: CPython re as reference matcher. MemoryError injected at the re seam only; threads out of scope."),
    "C20": ("§5", "deterministic simulation: seeded histories over a shared object pool (aliasing, shortcuts, compile/match/iterate "
                   "interleavings, object death with a deterministic id() seam), snapshot invariants, rebuild-equivalence in a fresh module "
                   "instance, cross-PYTHONHASHSEED outcome comparison",
            "Snapshot invariant per object after every step + rebuild-equivalence across histories, module instances and real hash "
            "seeds. Exploration level; equivalence judged on probe texts (difference = sound witness).",
            "Trusted: CPython re. Semantic equivalence sampled on probe texts; exceptions are compared by type only."),
    "C07": ("§6", "deterministic simulation of the configuration dimension: set-iteration order owned by the simulator (set seam with "
                   "order keys + real PYTHONHASHSEED worker interpreters), let-bound shared operands, bracket-set reference model over all "
                   "code points",
            "Each sampled class expression is decided against an executable interval-set model over all 0x110000 code points under the "
            "real hash order and 6-10 simulated set orders. Exploration level: the configuration slice is swept, inputs are sampled.",
            "Trusted: the model (sim/classmodel.py, ~150 lines) and CPython re for reading membership off the emitted pattern. "
            "Unicode-only members of \\d \\s \\w are unspecified, as the property says."),
    "C06": ("§6", "deterministic simulation of the configuration dimension: one constructor call per run under real PYTHONHASHSEEDs and "
                   "simulated set orders (plus a short construction history in the same module instance), code-point-set reference model",
            "Constructor results (and documented exceptions for invalid arguments) are decided against the code-point-set model over "
            "the full code-point range in every configuration. Exploration level; honest size: a constructor is one op, only the set "
            "order and the preceding history vary.",
            "Trusted: model + CPython re. Inputs are a seeded sample from a metacharacter-rich palette."),
    "C03": ("§6", "deterministic simulation of the configuration dimension: builder programs under real PYTHONHASHSEEDs, simulated set "
                   "orders and fresh vs long-lived module state; outcome classifier (own exception | compilable + equivalent export)",
            "Every builder op in every configuration must end in a documented pregex exception or a usable object; outcome classes "
            "must not depend on configuration. Exploration level over a documented input domain.",
            "Trusted: CPython re.compile as the validity judge; export equivalence judged on probe texts. Input domain restricted as "
            "listed in DESIGN.md §6 (known input-dimension defects are outside the simulated slice)."),
}

NA = {
    "C01": "pure function of the string and its argument position; no schedule, fault, history or nondeterminism to simulate (the escaper's set literal is order-insensitive and is swept by the C03/C20 hash-seed configurations anyway)",
    "C02": "pure function of the expression tree and the subject text; needs a semantic oracle over generated programs (property-based testing), not simulation",
    "C04": "pure function of (operand, bounds, greediness, text); no state, I/O or nondeterminism involved",
    "C05": "algebraic laws of pure builders; the only history aspect (shortcuts return the operand itself) is covered by C20's aliasing check",
    "C08": "pure text rewriting of group syntax; a function of the nesting only",
    "C09": "repeatability is a pure function of the operand's text",
    "C10": "the fixed-width verdict is a pure function of the assertion pattern's text (its one hash-order dependence was found through C20's configuration sweep and fixed)",
    "C12": "pure function of (pattern, text, options); its hidden inputs - cache state and is_path - are the subject of C11 and C14, which exercise these methods as workload without claiming C12's group-identity oracle",
    "C13": "pure function of (pattern, text, options); replace does not even read the compiled cache",
    "C15": "pure function of constructor parameters and text; 'configurations' there are parameter settings, not environment",
    "C16": "pure function of constructor parameters and text",
    "C17": "pure function of constructor parameters and text",
    "C18": "pure function of text; no parameters that touch environment",
    "C19": "pure function of constructor parameters and text",
}


def main(claimed):
    checks = []
    for pid in claimed:
        ref, tech, text, note = CHECKS[pid]
        checks.append({
            "property_id": pid,
            "quick_cmd": "./check %s --tier quick" % pid,
            "thorough_cmd": "./check %s --tier thorough" % pid,
            "evidence_file": "evidence/%s.json" % pid,
            "replay_cmd_template": "./check %s --replay {path}" % pid,
            "engine": "pgsim",
            "level_claimed": {"category": "exploration", "text": text, "design_ref": "DESIGN.md " + ref},
            "level_note": note,
            "technique": tech,
        })
    na = [{"property_id": k, "reason": v} for k, v in sorted(NA.items())]
    for pid in sorted(CHECKS):
        if pid not in claimed:
            na.append({"property_id": pid, "reason": "check not built yet in this tree (see DESIGN.md)"})
    m = {
        "version": 1,
        "setup_cmd": "/venv/bin/python -W ignore -c \"import sys; sys.path.insert(0, '/repo/src'); import pregex; print('pregex importable')\"",
        "hooks": {
            "guard": "MANOSS96_PREGEX_VERIF",
            "enable": "no source hooks: every seam (open/os.stat, re, set, id, hash seed, module state) is a module-global name that the "
                      "harness rebinds from outside at run time; the guard variable is not read by /repo",
            "baseline_off_cmd": "cd /repo && /venv/bin/python -m pytest -ra -q -p no:cacheprovider --timeout=900 --continue-on-collection-errors",
            "source_commits": [],
            "add_only": True,
        },
        "engines": [{"name": "pgsim", "path": "sim/", "serves_properties": claimed,
                     "kind_free_text": "custom deterministic simulator: plan-as-data, seeded scheduler, seams for open/stat, re, set "
                                       "iteration order, id(), real PYTHONHASHSEED worker interpreters, ddmin shrinker, replay files"}],
        "checks": checks,
        "not_applicable": na,
        "notes": "Genuine defects found on the pinned tree were repaired by 'fix:' commits in /repo (listed as 'fixed' in "
                 "known_findings.json with regression witnesses). ./check <ID> --replay <file> re-executes a replay file in a fresh "
                 "interpreter under the recorded PYTHONHASHSEED.",
    }
    with open(os.path.join(ROOT, "MANIFEST.json"), "w") as f:
        json.dump(m, f, indent=1)
        f.write("\n")


if __name__ == "__main__":
    import sys
    main(sys.argv[1:] or sorted(CHECKS))
