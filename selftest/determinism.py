#!/venv/bin/python
"""Determinism self-test of the simulator (run before any result is believed, and after every new seam or fault kind).

For each property and N run indices it checks that
 (a) executing a plan twice in one process gives the same event digest,
 (b) two fresh interpreters (same PYTHONHASHSEED) give the same plan and event digests,
 (c) the digests do not depend on which other runs shared the worker (one process for all indices vs. several
     processes for sub-ranges, i.e. any worker count / shard layout),
 (d) plan generation does not depend on the interpreter's hash seed (plan digests equal under two PYTHONHASHSEEDs),
 (e) the orchestrator's own hash seed does not matter (this script re-executes itself under another PYTHONHASHSEED
     and compares the combined digest).
usage: determinism.py [--n 200] [--props C14,C11,...] [--seed S]
"""
import hashlib
import json
import os
import sys

ROOT = os.path.dirname(os.path.dirname(os.path.abspath(__file__)))
sys.path.insert(0, ROOT)
from sim import runner  # noqa: E402


def digests(prop, seed, start, count, hashseed, tier="quick"):
    args = {"mode": "digests", "property": prop, "src": "/repo/src", "tier": tier, "verif_seed": seed,
            "start": start, "count": count, "watchdog": 600}
    lines, err = runner.spawn(args, hashseed, 900)
    if err:
        raise SystemExit("worker failed: " + err)
    return {ln["i"]: ln for ln in lines}


def main():
    n, seed = 200, 424242
    props = ["C14", "C11", "C20", "C07", "C06", "C03"]
    a = sys.argv[1:]
    if "--n" in a:
        n = int(a[a.index("--n") + 1])
    if "--seed" in a:
        seed = int(a[a.index("--seed") + 1])
    if "--props" in a:
        props = a[a.index("--props") + 1].split(",")
    inner = "--inner" in a
    bad = 0
    combined = hashlib.sha256()
    import concurrent.futures
    step = max(1, n // 4)
    jobs = {}
    with concurrent.futures.ThreadPoolExecutor(max_workers=12) as ex:
        for prop in props:
            jobs[(prop, "one")] = ex.submit(digests, prop, seed, 0, n, 11)
            jobs[(prop, "two")] = ex.submit(digests, prop, seed, 0, n, 11)
            jobs[(prop, "other")] = ex.submit(digests, prop, seed, 0, n, 99)
            for s in range(0, n, step):
                jobs[(prop, "part", s)] = ex.submit(digests, prop, seed, s, min(step, n - s), 11)
    for prop in props:
        one = jobs[(prop, "one")].result()
        two = jobs[(prop, "two")].result()
        other = jobs[(prop, "other")].result()
        parts = {}
        for s in range(0, n, step):
            parts.update(jobs[(prop, "part", s)].result())
        cnt = {"a": 0, "b": 0, "c": 0, "d": 0}
        for i in range(n):
            if one[i]["d1"] != one[i]["d2"]:
                cnt["a"] += 1
            if (one[i]["plan"], one[i]["d1"]) != (two[i]["plan"], two[i]["d1"]):
                cnt["b"] += 1
            if (one[i]["plan"], one[i]["d1"]) != (parts[i]["plan"], parts[i]["d1"]):
                cnt["c"] += 1
            if one[i]["plan"] != other[i]["plan"]:
                cnt["d"] += 1
            combined.update(("%s|%d|%s|%s\n" % (prop, i, one[i]["plan"], one[i]["d1"])).encode())
        ok = not any(cnt.values())
        bad += 0 if ok else 1
        if not inner:
            print("%s: %d run indices: twice-in-process diffs=%d, fresh-interpreter diffs=%d, shard-layout diffs=%d, "
                  "plan-vs-hashseed diffs=%d -> %s" % (prop, n, cnt["a"], cnt["b"], cnt["c"], cnt["d"], "OK" if ok else "NONDETERMINISTIC"))
            if not ok:
                for i in range(n):
                    if one[i]["d1"] != one[i]["d2"] or one[i]["d1"] != two[i]["d1"] or one[i]["d1"] != parts[i]["d1"]:
                        print("   first diverging run index:", i, one[i], two[i], parts[i])
                        break
    digest = combined.hexdigest()[:16]
    if inner:
        print(json.dumps({"digest": digest, "bad": bad}))
        return 0
    # (e) orchestrator under another hash seed
    import subprocess
    env = dict(os.environ, PYTHONHASHSEED="31337")
    p = subprocess.run([sys.executable, "-W", "ignore", os.path.abspath(__file__), "--inner", "--n", str(n), "--seed", str(seed),
                        "--props", ",".join(props)], env=env, stdout=subprocess.PIPE)
    try:
        inner_res = json.loads(p.stdout.decode().strip().splitlines()[-1])
    except Exception:                                        # noqa: BLE001
        inner_res = {"digest": None, "bad": 1}
    same = inner_res["digest"] == digest
    print("orchestrator under another PYTHONHASHSEED: combined digest %s vs %s -> %s" % (digest, inner_res["digest"], "OK" if same else "DIFFERS"))
    if not same:
        bad += 1
    print("determinism self-test:", "PASS" if not bad else "FAIL")
    return 1 if bad else 0


if __name__ == "__main__":
    sys.exit(main())
