#!/venv/bin/python
"""For every seeded change under /verif/seeded/<id>/: confirm it in a scratch worktree of /repo (applies, test suite passes,
demo fails with it and passes without it), run the property's quick check against it, and write meta.json + RESULTS.md.
usage: run_seeded.py [id-prefix ...] [--jobs N]"""
import json
import os
import re
import subprocess
import sys
import tempfile
import concurrent.futures

ROOT = os.path.dirname(os.path.dirname(os.path.abspath(__file__)))
PY = "/venv/bin/python"


def sh(cmd, cwd=None, env=None, timeout=1800):
    e = dict(os.environ)
    e.update(env or {})
    import signal
    p = subprocess.Popen(cmd, shell=True, cwd=cwd, env=e, stdout=subprocess.PIPE, stderr=subprocess.STDOUT, start_new_session=True)
    try:
        out, _ = p.communicate(timeout=timeout)
        return p.returncode, out.decode("utf-8", "replace")
    except subprocess.TimeoutExpired:
        os.killpg(p.pid, signal.SIGKILL)
        p.communicate()
        return 124, "timeout"


def one(mid):
    d = os.path.join(ROOT, "seeded", mid)
    prop = mid.split("-")[0]
    wt = tempfile.mkdtemp(prefix="wt-seed-")
    os.rmdir(wt)
    res = {"id": mid, "property": prop}
    try:
        rc, out = sh("git -C /repo worktree add -q --detach %s HEAD" % wt)
        if rc:
            res["error"] = "worktree: " + out[-300:]
            return res
        env = {"PYTHONPATH": wt + "/src"}
        rc, _ = sh("%s -W ignore %s/demo.py" % (PY, d), cwd=wt, env=env, timeout=600)
        res["demo_clean_exit"] = rc
        rc, out = sh("git apply %s/patch.diff" % d, cwd=wt)
        if rc:
            res["error"] = "patch does not apply: " + out[-300:]
            return res
        rc, out = sh("%s -W ignore -m pytest -q -p no:cacheprovider 2>&1 | tail -1" % PY, cwd=wt, env=env, timeout=900)
        res["tests"] = out.strip()[-60:]
        rc, _ = sh("%s -W ignore %s/demo.py" % (PY, d), cwd=wt, env=env, timeout=600)
        res["demo_mutant_exit"] = rc
        rc, out = sh("./check %s --tier quick --src %s/src --no-evidence --replay-dir %s/_replays" % (prop, wt, wt), cwd=ROOT, timeout=3000)
        res["check_exit"] = rc
        rules = re.findall(r"^violation: rule=(\S+)", out, re.M)
        res["rules"] = sorted(set(rules))
        m = re.search(r"^(C\d+ quick: .*)$", out, re.M)
        res["summary"] = m.group(1) if m else out[-300:]
        det = re.search(r"^violation: .*\n  (.*)$", out, re.M)
        res["first_detail"] = det.group(1)[:300] if det else None
    finally:
        sh("git -C /repo worktree remove --force %s" % wt)
        sh("rm -rf %s" % wt)
    return res


def main():
    args = [a for a in sys.argv[1:] if not a.startswith("--")]
    jobs = 2
    if "--jobs" in sys.argv:
        jobs = int(sys.argv[sys.argv.index("--jobs") + 1])
        args = [a for a in args if a != str(jobs)]
    ids = sorted(x for x in os.listdir(os.path.join(ROOT, "seeded"))
                 if os.path.isdir(os.path.join(ROOT, "seeded", x)) and not x.startswith("_"))
    if args:
        ids = [i for i in ids if any(i.startswith(a) for a in args)]
    results = []
    with concurrent.futures.ThreadPoolExecutor(max_workers=jobs) as ex:
        for r in ex.map(one, ids):
            results.append(r)
            ok = r.get("tests", "").startswith("689 passed") and r.get("demo_clean_exit") == 0 and r.get("demo_mutant_exit") == 1
            print("%-45s confirmed=%s detected=%s %s" % (r["id"], ok, r.get("check_exit") == 1, ",".join(r.get("rules", []))[:80]), flush=True)
            mp = os.path.join(ROOT, "seeded", r["id"], "meta.json")
            meta = {}
            if os.path.exists(mp):
                with open(mp) as f:
                    meta = json.load(f)
            notes = ""
            np_ = os.path.join(ROOT, "seeded", r["id"], "notes.md")
            if os.path.exists(np_):
                with open(np_) as f:
                    notes = f.read()
            meta.update({
                "id": r["id"], "breaks_property": r["property"],
                "needs_to_manifest": meta.get("needs_to_manifest") or _needs(notes),
                "origin": "written by an independent sub-agent that saw only the property text and a scratch worktree",
                "confirmed": {"patch_applies_to_repo_head": "error" not in r, "test_suite_with_change": r.get("tests"),
                              "demo_exit_with_change": r.get("demo_mutant_exit"), "demo_exit_without_change": r.get("demo_clean_exit")},
                "what_was_run": "selftest/run_seeded.py: scratch worktree of /repo HEAD; git apply patch.diff; pytest; demo.py with and "
                                "without the change; ./check %s --tier quick --src <worktree>/src" % r["property"],
                "detected_by_quick_check": r.get("check_exit") == 1, "violated_rules": r.get("rules"),
                "first_violation": r.get("first_detail"), "check_summary": r.get("summary"),
            })
            with open(mp, "w") as f:
                json.dump(meta, f, indent=1, ensure_ascii=False)
    lines = ["# Seeded changes and which check catches them (quick tier)", "",
             "| id | property | confirmed (applies, 689 pass, demo fails/passes) | detected | rules |", "|---|---|---|---|---|"]
    for mid in sorted(x for x in os.listdir(os.path.join(ROOT, "seeded"))
                      if os.path.isdir(os.path.join(ROOT, "seeded", x)) and not x.startswith("_")):
        mp = os.path.join(ROOT, "seeded", mid, "meta.json")
        if not os.path.exists(mp):
            continue
        with open(mp) as f:
            m = json.load(f)
        c = m["confirmed"]
        ok = str(c.get("test_suite_with_change", "")).startswith("689 passed") and c.get("demo_exit_with_change") == 1 and c.get("demo_exit_without_change") == 0
        lines.append("| %s | %s | %s | %s | %s |" % (mid, m["breaks_property"], "yes" if ok else "NO", "yes" if m["detected_by_quick_check"] else "NO",
                                                    ", ".join(m.get("violated_rules") or [])))
    with open(os.path.join(ROOT, "seeded", "RESULTS.md"), "w") as f:
        f.write("\n".join(lines) + "\n")


def _needs(notes):
    m = re.search(r"(?is)(needed to manifest|needs?|trigger|manifest)[^\n]*\n?(.{0,400})", notes)
    return (m.group(0).strip()[:500] if m else notes.strip()[:400])


if __name__ == "__main__":
    main()
