#!/bin/bash
# usage: try_mutant.sh <mutant dir with patch.diff + demo.py> <PROP> [extra check args]
# Confirms the mutant (tests pass, demo fails with / passes without) in a scratch worktree and runs ./check against it.
set -u
M=$(realpath "$1"); PROP=$2; shift 2
WT=$(mktemp -d /tmp/wt-mut-XXXXXX)
git -C /repo worktree add -q --detach "$WT" HEAD || exit 3
cleanup() { git -C /repo worktree remove --force "$WT" 2>/dev/null; rm -rf "$WT"; }
trap cleanup EXIT
cd "$WT"
PYTHONPATH="$WT/src" timeout 120 /venv/bin/python -W ignore "$M/demo.py" >/dev/null 2>&1; echo "demo on clean tree: exit $? (want 0)"
git apply "$M/patch.diff" || { echo "patch does not apply"; exit 3; }
PYTHONPATH="$WT/src" timeout 300 /venv/bin/python -W ignore -m pytest -q -p no:cacheprovider 2>&1 | tail -1
PYTHONPATH="$WT/src" timeout 120 /venv/bin/python -W ignore "$M/demo.py" >/dev/null 2>&1; echo "demo on mutant: exit $? (want 1)"
cd /verif
timeout 1200 ./check "$PROP" --src "$WT/src" --no-evidence "$@" 2>&1 | grep -E "^(violation|VIOLATION|HARNESS|  |C[0-9]+ )" | head -12
echo "check exit: ${PIPESTATUS[0]}"
rm -f /verif/replays/*.json
