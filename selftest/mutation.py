#!/venv/bin/python
"""Mutation-based sensitivity measurement of the checks.

Generic mutation operators (comparison / arithmetic / boolean flips, constant swaps, condition forcing, statement
deletion) are applied to the code the six claimed properties are anchored in.  A mutant that still compiles and still
passes the pinned test suite ("test-surviving") is exactly the kind of change the brief asks the checks to detect; each
such mutant is run against the quick tiers (reduced run counts) of the properties its code region serves.
Writes selftest/mutation_results.json and prints a summary.  Nothing is ever written to /repo: every mutant lives in a
scratch copy of /repo/src that is removed afterwards.

usage: mutation.py [--n 120] [--seed 1] [--jobs 4] [--runs-scale 0.25]
"""
import concurrent.futures
import json
import os
import random
import re
import shutil
import subprocess
import sys
import tempfile

ROOT = os.path.dirname(os.path.dirname(os.path.abspath(__file__)))
PY = "/venv/bin/python"

# (file, first line, last line, properties served) - regions are located by function names at run time
REGIONS = [
    ("pregex/core/pre.py", ["get_compiled_pattern", "compile", "purge", "has_match", "is_exact_match", "iterate_matches",
                            "iterate_matches_and_pos", "__iterate_match_objects"], ["C11", "C14", "C20"]),
    ("pregex/core/pre.py", ["iterate_matches_with_context", "iterate_captures", "iterate_captures_and_pos", "iterate_named_captures",
                            "iterate_named_captures_and_pos", "replace", "split_by_match", "split_by_capture", "__extract_text"], ["C14"]),
    ("pregex/core/pre.py", ["optional", "indefinite", "one_or_more", "exactly", "at_least", "at_most", "at_least_at_most", "concat", "either",
                            "enclose", "capture", "group", "followed_by", "preceded_by", "not_followed_by", "__add__", "__radd__", "__mul__",
                            "_to_pregex", "__repr__", "get_pattern", "__escape", "__infer_type", "__remove_classes"], ["C20", "C03"]),
    ("pregex/core/classes.py", ["__process", "__chars_to_ranges", "__verbose_to_shorthand", "__invert__", "__or__", "__ror__", "__or", "__sub__",
                                "__rsub__", "__sub", "__extract_classes", "__separate_classes", "__modify_classes", "__split_range", "_to_char"],
     ["C07", "C06", "C20"]),
    ("pregex/core/classes.py", ["AnyBetween.__init__", "AnyButBetween.__init__", "AnyFrom.__init__", "AnyButFrom.__init__"], ["C06", "C07"]),
]

OPS = [
    (r"<=", "<"), (r">=", ">"), (r"(?<![<>=!])<(?![<=])", "<="), (r"(?<![<>=!-])>(?![>=])", ">="), (r"==", "!="), (r"!=", "=="),
    (r"\bis None\b", "is not None"), (r"\bis not None\b", "is None"),
    (r"\+ 1\b", "- 1"), (r"- 1\b", "+ 1"), (r"\+ 1\b", ""), (r"- 1\b", ""),
    (r"\band\b", "or"), (r"\bor\b", "and"), (r"\bnot ", ""), (r"\bTrue\b", "False"), (r"\bFalse\b", "True"),
    (r"\bif (.+):$", "if True:"), (r"\bif (.+):$", "if False:"), (r"\belif (.+):$", "elif False:"),
    (r"\b0\b", "1"), (r"\b1\b", "0"), (r"\b1\b", "2"), (r"\[1:-1\]", "[1:]"), (r"\[0\]", "[-1]"), (r"\[-1\]", "[0]"),
    (r"\bmax\(", "min("), (r"\bmin\(", "max("), (r"\.union\(", ".intersection("), (r"\.difference\(", ".union("),
    (r"count=1", "count=0"), (r"\bbreak$", "continue"), (r"i = -1$", "i = 0"), (r"i -= 1$", "pass"),
    (r"flags=self\.__flags", "flags=0"), (r"flags=__class__\.__flags", "flags=0"), (r"escape=False", "escape=True"),
    (r"\.search\(", ".match("), (r"\.fullmatch\(", ".match("), (r"\.finditer\(source\)", ".finditer(source, 1)"),
    (r"is_path\)", "False)"), (r"encoding='utf-8'", "encoding='latin-1'"), (r"f\.read\(\)", "f.read().strip()"),
    (r"f\.read\(\)", "f.read(4096)"), (r"f\.read\(\)", "f.readline()"), (r"mode='r'", "mode='r', newline=''"),
    (r"mode='r'", "mode='r', errors='ignore'"),
]


def function_ranges(path):
    """name -> (first, last) line numbers (1-based), using indentation; 'Class.method' for nested class methods."""
    with open(path) as f:
        lines = f.read().split("\n")
    out = {}
    cls = None
    stack = []
    for i, ln in enumerate(lines):
        m = re.match(r"^(\s*)(def|class) (\w+)", ln)
        if not m:
            continue
        ind = len(m.group(1))
        if m.group(2) == "class" and ind == 0:
            cls = m.group(3)
        if m.group(2) == "def":
            j = i + 1
            while j < len(lines) and (not lines[j].strip() or len(lines[j]) - len(lines[j].lstrip()) > ind):
                j += 1
            name = m.group(3)
            out.setdefault(name, []).append((i + 1, j))
            if cls:
                out.setdefault("%s.%s" % (cls, name), []).append((i + 1, j))
    return out, lines


def candidates(src):
    cands = []
    for rel, funcs, props in REGIONS:
        path = os.path.join(src, rel)
        ranges, lines = function_ranges(path)
        todo = []
        for fn in funcs:
            for (a, b) in ranges.get(fn, []):
                todo.append((a, b))
        in_doc = False
        for (a, b) in todo:
            for ln in range(a, b):
                text = lines[ln - 1]
                stripped = text.strip()
                if stripped.count("'''") % 2 == 1 or stripped.count('"""') % 2 == 1:
                    in_doc = not in_doc
                    continue
                if in_doc or not stripped or stripped.startswith("#") or stripped.startswith(":") or stripped.startswith("def "):
                    continue
                for pat, rep in OPS:
                    for m in re.finditer(pat, text):
                        # skip matches inside string literals that look like messages
                        if "message" in text or "raise _ex" in text:
                            continue
                        new = text[:m.start()] + (rep if "(.+)" not in pat else re.sub(pat, rep, text[m.start():m.end()])) + text[m.end():]
                        if new != text:
                            cands.append({"file": rel, "line": ln, "old": text, "new": new, "props": props, "op": "%s -> %s" % (pat, rep)})
                # statement deletion
                if re.match(r"^\s+[\w\.\[\], ]+ (=|\+=|-=) ", text) or re.match(r"^\s+[\w\.]+\(.*\)$", text):
                    ind = text[:len(text) - len(text.lstrip())]
                    cands.append({"file": rel, "line": ln, "old": text, "new": ind + "pass", "props": props, "op": "delete statement"})
    # de-duplicate
    seen, out = set(), []
    for c in cands:
        k = (c["file"], c["line"], c["new"])
        if k not in seen:
            seen.add(k)
            out.append(c)
    return out


def sh(cmd, cwd=None, env=None, timeout=900):
    e = dict(os.environ)
    e.update(env or {})
    import signal
    p = subprocess.Popen(cmd, shell=True, cwd=cwd, env=e, stdout=subprocess.PIPE, stderr=subprocess.STDOUT, start_new_session=True)
    try:
        out, _ = p.communicate(timeout=timeout)
        return p.returncode, out.decode("utf-8", "replace")
    except subprocess.TimeoutExpired:
        os.killpg(p.pid, signal.SIGKILL)            # the whole process group: a mutant may loop forever inside pytest
        p.communicate()
        return 124, "timeout"


RUNS = {"C14": 8000, "C11": 8000, "C20": 3000, "C07": 2000, "C06": 2000, "C03": 3000}


def evaluate(args):
    k, c, scale, workers = args
    tmp = tempfile.mkdtemp(prefix="mut-%d-" % k)
    res = dict(c, id=k)
    try:
        shutil.copytree("/repo/src", os.path.join(tmp, "src"))
        shutil.copytree("/repo/tests", os.path.join(tmp, "tests"))
        path = os.path.join(tmp, "src", c["file"])
        with open(path) as f:
            lines = f.read().split("\n")
        if lines[c["line"] - 1] != c["old"]:
            res["status"] = "stale"
            return res
        lines[c["line"] - 1] = c["new"]
        with open(path, "w") as f:
            f.write("\n".join(lines))
        rc, out = sh("%s -W ignore -c \"import sys; sys.path.insert(0,'%s/src'); import pregex.core.pre, pregex.core.classes, pregex.meta.essentials\"" % (PY, tmp))
        if rc:
            res["status"] = "does_not_import"
            return res
        rc, out = sh("%s -W ignore -m pytest -q -x -p no:cacheprovider tests 2>&1 | tail -1" % PY, cwd=tmp, env={"PYTHONPATH": tmp + "/src"}, timeout=600)
        res["tests"] = out.strip()[-50:]
        if "689 passed" not in out:
            res["status"] = "killed_by_tests"
            return res
        res["status"] = "survived_tests"
        res["checks"] = {}
        for prop in c["props"]:
            rc, out = sh("./check %s --src %s/src --no-evidence --runs %d --workers %d --replay-dir %s/replays"
                         % (prop, tmp, max(400, int(RUNS[prop] * scale)), workers, tmp), cwd=ROOT, timeout=1500)
            rules = sorted(set(re.findall(r"^violation: rule=(\S+)", out, re.M)))
            res["checks"][prop] = {"exit": rc, "rules": rules}
            if rc == 1:
                det = re.search(r"^violation: .*\n  (.*)$", out, re.M)
                res["first_detail"] = det.group(1)[:240] if det else None
                break
        res["killed_by_checks"] = any(v["exit"] == 1 for v in res["checks"].values())
        res["harness_error"] = any(v["exit"] not in (0, 1) for v in res["checks"].values())
    finally:
        shutil.rmtree(tmp, ignore_errors=True)
    return res


def main():
    a = sys.argv[1:]
    n = int(a[a.index("--n") + 1]) if "--n" in a else 120
    seed = int(a[a.index("--seed") + 1]) if "--seed" in a else 1
    jobs = int(a[a.index("--jobs") + 1]) if "--jobs" in a else 4
    scale = float(a[a.index("--runs-scale") + 1]) if "--runs-scale" in a else 0.25
    out_path = a[a.index("--out") + 1] if "--out" in a else os.path.join(ROOT, "selftest", "mutation_results.json")
    if "--recheck" in a:
        # second pass: the mutants that survived the reduced budgets are run against the full quick tiers
        src = a[a.index("--recheck") + 1]
        with open(src) as f:
            prev = json.load(f)
        todo = [r for r in prev["results"] if r.get("status") == "survived_tests" and not r.get("killed_by_checks")]
        print("re-checking %d survivors of %s with the full quick tiers" % (len(todo), src), flush=True)
        workers = max(2, 16 // jobs)
        out = []
        with concurrent.futures.ThreadPoolExecutor(max_workers=jobs) as ex:
            for r in ex.map(evaluate, [(r["id"], {k: r[k] for k in ("file", "line", "old", "new", "props", "op")}, 1.0, workers) for r in todo]):
                out.append(r)
                tag = ("KILLED by " + ",".join(p_ for p_, v in r.get("checks", {}).items() if v["exit"] == 1)) if r.get("killed_by_checks") \
                    else ("HARNESS-ERROR" if r.get("harness_error") else r.get("status") if r.get("status") != "survived_tests" else "survived checks")
                print("%3d %-22s %s:%d  %s  |  %s" % (r["id"], tag, r["file"].split("/")[-1], r["line"], r["old"].strip()[:60], r["new"].strip()[:60]), flush=True)
                with open(out_path, "w") as f:
                    json.dump({"recheck_of": src, "results": out}, f, indent=1)
        return
    cands = candidates("/repo/src")
    rng = random.Random(seed)
    rng.shuffle(cands)
    chosen = cands[:n]
    print("%d candidate mutants in the anchored regions, evaluating %d (seed %d)" % (len(cands), len(chosen), seed), flush=True)
    workers = max(2, 16 // jobs)
    results = []
    with concurrent.futures.ThreadPoolExecutor(max_workers=jobs) as ex:
        for r in ex.map(evaluate, [(k, c, scale, workers) for k, c in enumerate(chosen)]):
            results.append(r)
            tag = r["status"]
            if r["status"] == "survived_tests":
                tag = "KILLED by " + ",".join(p for p, v in r["checks"].items() if v["exit"] == 1) if r["killed_by_checks"] else \
                    ("HARNESS-ERROR" if r.get("harness_error") else "survived checks")
            print("%3d %-22s %s:%d  %s  |  %s" % (r["id"], tag, r["file"].split("/")[-1], r["line"], r["old"].strip()[:60], r["new"].strip()[:60]), flush=True)
            with open(out_path, "w") as f:
                json.dump({"seed": seed, "candidates": len(cands), "results": results}, f, indent=1)
    st = {}
    for r in results:
        key = r["status"] if r["status"] != "survived_tests" else ("killed_by_checks" if r["killed_by_checks"] else
                                                                    ("harness_error" if r.get("harness_error") else "survived_checks"))
        st[key] = st.get(key, 0) + 1
    print("summary:", st)


if __name__ == "__main__":
    main()
