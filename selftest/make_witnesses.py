#!/venv/bin/python
"""Writes the witness plans under /verif/known/ and /verif/known_findings.json, then validates them:
a 'fixed' witness must fail on the pinned original tree (if --orig DIR is given) and pass on /repo;
a 'known' witness must still fail on /repo."""
import json
import os
import sys

ROOT = os.path.dirname(os.path.dirname(os.path.abspath(__file__)))
sys.path.insert(0, ROOT)
from sim import kernel, runner  # noqa: E402

KEYS = ["sorted", "reverse", 3, 17, 991, 4242, 77, 123456]


def cls(prop, name, program, lets=None):
    p = {"format": kernel.FORMAT, "property": prop, "program": program, "config": {"order_keys": KEYS, "hashseed": 0}}
    if lets:
        p["lets"] = lets
    return name, p


def c03(name, ops, keys=(), guard=True):
    p = {"format": kernel.FORMAT, "property": "C03",
         "config": {"order_keys": list(keys), "churn": 0, "hashseed": 0, "no_domain_guard": not guard},
         "world": {"texts": {"t0": "a1 b", "t1": ""}},
         "tasks": [[({"op": "build", "id": i, "recipe": r["__expect_own__"], "expect": "own"} if isinstance(r, dict)
                     else {"op": "build", "id": i, "recipe": r}) for i, r in enumerate(ops)]], "schedule": []}
    return name, p


def N(c, *a):
    return ["new", c] + list(a)


FIXED = [
    ("C14", "ddf63b9", "get_matches_with_context(path, is_path=True) cut its windows out of the path string", (
        "C14-fixed-context-windows", {
            "format": kernel.FORMAT, "property": "C14", "config": {"buffer_size": 8192, "hashseed": 0},
            "world": {"patterns": {"p0": N("OneOrMore", ["named", "AnyDigit"])},
                      "files": {"/pgsim/data/a1 b22.txt": ["ab 12 cd 345 e".encode().hex()]},
                      "content_classes": {"/pgsim/data/a1 b22.txt": "plain"}},
            "tasks": [[{"op": "call", "method": "get_matches_with_context", "pattern": "p0", "path": "/pgsim/data/a1 b22.txt",
                        "kw": {"n_left": 2, "n_right": 2}},
                       {"op": "iter_open", "h": "h0", "method": "iterate_matches_with_context", "pattern": "p0",
                        "path": "/pgsim/data/a1 b22.txt", "kw": {}},
                       {"op": "iter_drain", "h": "h0"}]], "schedule": []})),
    ("C11", "2c295db", "compile() built the cached pattern from the printable export: a hand-written pattern with an escaped newline "
                       "or an escaped quote matched differently once compiled", (
        "C11-fixed-compile-export", {
            "format": kernel.FORMAT, "property": "C11", "config": {"hashseed": 0},
            "world": {"instances": {"i0": {"recipe": ["raw", "a\\\nb"], "name": "raw_escnl"},
                                    "i1": {"recipe": ["raw", "\\'\""], "name": "raw_escquote"}},
                      "aliases": {}, "texts": {"t0": "a\nb a\\nb", "t1": "'\" \\'\""}},
            "tasks": [[{"op": "match", "method": "get_matches", "i": "i0", "t": "t0"}, {"op": "compile", "i": "i0"},
                       {"op": "match", "method": "get_matches", "i": "i0", "t": "t0"}, {"op": "compile", "i": "i1"},
                       {"op": "match", "method": "get_matches_and_pos", "i": "i1", "t": "t1"}]], "schedule": []})),
    ("C07", "297d774", "~cls stripped a trailing escaped ']' under some set orders", cls("C07", "C07-fixed-invert-strip", ["inv", ["AnyFrom", "a", "]"]])),
    ("C07", "43d35d6", "a range covered by a strictly larger subtracted range was split into inverted ranges",
     cls("C07", "C07-fixed-covered-range", ["sub", ["named", "AnyUppercaseLetter"], ["AnyBetween", "7", "z"]])),
    ("C07", "06be744", "pair ranges and single leftovers escaped the subtraction of ranges",
     cls("C07", "C07-fixed-pair-range", ["sub", ["AnyBetween", "b", "c"], ["named", "AnyLetter"]])),
    ("C06", "ac9c3d0", "'$' was not accepted as an unescaped range endpoint", cls("C06", "C06-fixed-dollar-endpoint", ["AnyBetween", "$", "b"])),
    ("C06", "dd9887f", "escaped tokens (Dollar, Backslash) used as class members / range endpoints",
     cls("C06", "C06-fixed-token-args", ["AnyBetween", ["tok", "Backslash"], "a"], lets=[["AnyFrom", ["tok", "Dollar"]]])),
    ("C06", "bdf2583", "the one-character collapse fired inside a longer class containing '\\[' under some set orders",
     cls("C06", "C06-fixed-anchored-collapse", ["AnyFrom", ":", "z", "}", "["], lets=[["AnyFrom", "]", "["]])),
    ("C06", "47243fb", "class text was split in the middle of an escape sequence (backslash next to hyphen) under some set orders",
     cls("C06", "C06-fixed-tokeniser", ["AnyButFrom", "\\", "-", "9"], lets=[["AnyFrom", "\\", "-", ["tok", "Newline"], "0"]])),
    ("C06", "620e878", "strings that are not exactly one character were accepted by the class constructors",
     cls("C06", "C06-fixed-arg-length", ["AnyFrom", "\\a"], lets=[])),
    ("C03", "4463b9d", "a class holding '(' and a newline recursed forever in type inference",
     c03("C03-fixed-class-newline-paren", [["AnyFrom", "(", "\n"], ["AnyBetween", "\n", "("]])),
    ("C03", "68abf21", "an escaped '[' followed by a class recursed forever in type inference (Capture('[') + AnyLetter())",
     c03("C03-fixed-escaped-bracket", [["op", "+", N("Capture", ["lit", "["]), ["named", "AnyLetter"]]])),
    ("C03", "53dba68", "lookbehind fixed-width check mistook class members for quantifiers, depending on set order",
     c03("C03-fixed-lookbehind-class-members", [["AnyFrom", "+", "\"", "("], N("NotPrecededBy", ["lit", "x"], ["ref", 0])], keys=KEYS)),
    ("C03", "76c7d1d", "naming a group that contains a named group renamed every nested group as well",
     c03("C03-fixed-nested-rename", [["named", "AnyDigit"], ["call", "capture", ["ref", 0], "n1"], N("AtMost", ["ref", 1], None),
                                     N("Capture", ["ref", 2], "n2"), N("Capture", ["ref", 3], "n3")])),
    ("C03", "35411b9", "a repeating quantifier applied to a bare anchor (an anchor of the empty pattern) returned an invalid regex such as '$?'",
     c03("C03-fixed-bare-anchor", [N("MatchAtLineEnd", ["empty"]), N("Optional", ["ref", 0]), N("MatchAtStart", ["empty"]),
                                   {"__expect_own__": ["new", "OneOrMore", ["ref", 2]]}])),
    ("C03", "12904c5", "Capture() of a Conditional or of a bare lookaround rewrote its first characters into an invalid regex",
     c03("C03-fixed-capture-special-groups", [N("Conditional", "g", ["lit", "a"]), N("Capture", ["ref", 0], "n"),
                                              N("FollowedBy", ["empty"], ["lit", "a"]), N("Capture", ["ref", 2], "m"),
                                              N("Backreference", "g"), N("Capture", ["ref", 4])])),
    ("C03", "78ecc39", "Conditional accepted a branch pattern of the wrong type instead of raising InvalidArgumentTypeException",
     ("C03-fixed-conditional-type", dict(c03("x", [N("Conditional", "g", 1.5)])[1],
                                         tasks=[[{"op": "build", "id": 0, "recipe": N("Conditional", "g", 1.5), "expect": "own"}]]))),
]

C20_SHORTHAND = ("C20-known-shorthand-emission", {
    "format": kernel.FORMAT, "property": "C20", "config": {"order_keys": KEYS, "hashseed": 0},
    "world": {"texts": {"t0": "\u0663 7", "t1": "a\u0663b"}},
    "tasks": [[{"op": "build", "id": 0, "recipe": ["or", ["or", ["named", "AnyDigit"], ["inv", ["AnyButBetween", "*", "."]]], ["AnyFrom", "/"]]}]],
    "schedule": []})

KNOWN = [
    ("C20", "whether a class is spelled with the Unicode-aware shorthand \\d (or \\s) can depend on set iteration order when a member is adjacent "
            "to both a range and the digit block ((AnyDigit() | ~AnyButBetween('*','.')) | AnyFrom('/') is '[*-\\/\\d]' or '[*-.\\/-9]'), so the "
            "same expression matches non-ASCII digits under some hash seeds only; C06/C07 leave those code points unspecified, C20 does not; "
            "found by the thorough-tier soak (about 1 in 30 000 class expressions); not repaired because canonical merging of adjacent ranges "
            "changes the documented spellings the test suite pins", C20_SHORTHAND),
    ("C03", "lookbehind assertions accept an alternation of different widths and return a regex that re rejects (C10's input dimension)",
     c03("C03-known-lookbehind-alternation", [N("PrecededBy", ["lit", "x"], N("Either", ["lit", "a"], ["lit", "bc"]))], guard=False)),
    ("C03", "a numeric Backreference followed by a pattern that starts with a digit merges into another escape (Backreference(7) + '42' "
            "is the invalid octal escape '\\742'; found by the thorough-tier soak)",
     c03("C03-known-backreference-digit", [N("Backreference", 7), ["call", "concat", ["ref", 0], "42"]], guard=False)),
    ("C03", "enclose()/EnclosedBy emit the enclosing pattern twice, so an enclosing pattern with a named group yields a regex with a "
            "duplicated group name",
     c03("C03-known-duplicate-group-name", [N("Capture", ["lit", "a"], "n"), ["call", "enclose", ["lit", "x"], ["ref", 0]]], guard=False)),
]


def main():
    orig = None
    if "--orig" in sys.argv:
        orig = sys.argv[sys.argv.index("--orig") + 1]
    os.makedirs(os.path.join(ROOT, "known"), exist_ok=True)
    entries, bad = [], 0
    for prop, commit, what, (name, plan) in FIXED:
        path = os.path.join("known", name + ".json")
        with open(os.path.join(ROOT, path), "w") as f:
            json.dump(plan, f, indent=1, ensure_ascii=True, sort_keys=True)
        entries.append({"property": prop, "kind": "fixed", "commit": commit, "what": what, "witness": path,
                        "line": "fixed: property=%s %s %s" % (prop, commit, what)})
        res, _ = runner.replay_file(os.path.join(ROOT, path), "/repo/src")
        line = "%-40s HEAD:%s" % (name, res["status"])
        if res["status"] != "ok":
            bad += 1
            line += " !!! " + str(res.get("detail"))[:200]
        if orig:
            r2, _ = runner.replay_file(os.path.join(ROOT, path), orig)
            line += "  ORIG:%s %s" % (r2["status"], r2.get("rule", ""))
            if r2["status"] != "violation":
                bad += 1
                line += " !!! expected a violation on the original tree"
        print(line)
    for prop, what, (name, plan) in KNOWN:
        path = os.path.join("known", name + ".json")
        res0 = None
        with open(os.path.join(ROOT, path), "w") as f:
            json.dump(plan, f, indent=1, ensure_ascii=True, sort_keys=True)
        res, _ = runner.replay_file(os.path.join(ROOT, path), "/repo/src")
        if res["status"] == "violation":
            plan["expect"] = {"rule": res["rule"], "detail": res["detail"],
                              "fingerprint": kernel.digest_of([res["rule"], plan["tasks"]])}
            with open(os.path.join(ROOT, path), "w") as f:
                json.dump(plan, f, indent=1, ensure_ascii=True, sort_keys=True)
        else:
            bad += 1
        entries.append({"property": prop, "kind": "known", "what": what, "witness": path,
                        "line": "KNOWN-FINDING: property=%s %s" % (prop, what)})
        print("%-40s HEAD:%s %s" % (name, res["status"], (res.get("rule") or "") + " " + str(res.get("detail"))[:160]))
    with open(os.path.join(ROOT, "known_findings.json"), "w") as f:
        json.dump({"comment": "kind=known: genuine defects recorded rather than repaired, identified by their witness plan; the check "
                              "prints a KNOWN-FINDING line while the witness still fails and never adds to this file at run time. "
                              "kind=fixed: defects repaired by a 'fix:' commit in /repo; the witness is an ordinary regression plan "
                              "that must pass (it suppresses nothing).",
                   "entries": entries}, f, indent=1)
    print("problems:", bad)
    return 1 if bad else 0


if __name__ == "__main__":
    sys.exit(main())
