"""Interval sets over Unicode code points (0 .. 0x10FFFF).

A value is a tuple of disjoint, non-adjacent, sorted (lo, hi) pairs (inclusive).
Small and dumb on purpose: it is the executable reference model for C06/C07.
"""

MAXCP = 0x10FFFF


def norm(pairs):
    out = []
    for lo, hi in sorted(pairs):
        if lo > hi:
            continue
        if out and lo <= out[-1][1] + 1:
            if hi > out[-1][1]:
                out[-1] = (out[-1][0], hi)
        else:
            out.append((lo, hi))
    return tuple(out)


def from_points(points):
    return norm((p, p) for p in points)


def union(a, b):
    return norm(tuple(a) + tuple(b))


def complement(a):
    out, nxt = [], 0
    for lo, hi in a:
        if lo > nxt:
            out.append((nxt, lo - 1))
        nxt = hi + 1
    if nxt <= MAXCP:
        out.append((nxt, MAXCP))
    return tuple(out)


def intersect(a, b):
    out, i, j = [], 0, 0
    while i < len(a) and j < len(b):
        lo, hi = max(a[i][0], b[j][0]), min(a[i][1], b[j][1])
        if lo <= hi:
            out.append((lo, hi))
        if a[i][1] < b[j][1]:
            i += 1
        else:
            j += 1
    return tuple(out)


def difference(a, b):
    return intersect(a, complement(b))


def symdiff(a, b):
    return union(difference(a, b), difference(b, a))


def size(a):
    return sum(hi - lo + 1 for lo, hi in a)


def contains(a, p):
    for lo, hi in a:
        if lo <= p <= hi:
            return True
    return False


def first_points(a, n=6):
    out = []
    for lo, hi in a:
        for p in range(lo, hi + 1):
            out.append(p)
            if len(out) >= n:
                return out
    return out


def show(a, limit=8):
    parts = []
    for lo, hi in a[:limit]:
        parts.append("U+%04X" % lo if lo == hi else "U+%04X-U+%04X" % (lo, hi))
    if len(a) > limit:
        parts.append("...(%d intervals)" % len(a))
    return "{" + ",".join(parts) + "}"
