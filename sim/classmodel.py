"""Bracket-set reference model for character classes (C06 / C07) and the code that
reads the *implementation's* matched set off an emitted pattern.

Recipes (JSON-able nested lists):
    ["AnyFrom", arg, ...] / ["AnyButFrom", arg, ...]   arg = "c" | ["tok", Name]
    ["AnyBetween", a, b]  / ["AnyButBetween", a, b]
    ["named", ClassName] | ["named", "AnyWordChar", true]   (true = is_global)
    ["Any"]
    ["or", X, Y] / ["sub", X, Y] / ["inv", X]
    ["chr", "c"]   a bare one-character string used as an operand
    ["tok", Name]  a token instance used as an operand

Model value of a class: (S, neg, tag) with S an interval set (the *bracket* set), neg the
negation flag and tag in {None, "any", "gword"}.
"""
import re
import string

from . import intervals as iv

TOKENS = {
    "Backslash": "\\", "Bullet": "•", "CarriageReturn": "\r", "Copyright": "©",
    "Division": "÷", "Dollar": "$", "Euro": "€", "FormFeed": "\f",
    "Infinity": "∞", "Multiplication": "×", "Newline": "\n", "Pound": "£",
    "Registered": "®", "Rupee": "₹", "Space": " ", "Tab": "\t",
    "Trademark": "™", "VerticalTab": "\v", "WhiteBullet": "◦", "Yen": "¥",
}


def _r(a, b):
    return (ord(a), ord(b))


def _pts(s):
    return [(ord(c), ord(c)) for c in s]


_LETTER = [_r("a", "z"), _r("A", "Z")]
NAMED = {
    "Letter": iv.norm(_LETTER),
    "LowercaseLetter": iv.norm([_r("a", "z")]),
    "UppercaseLetter": iv.norm([_r("A", "Z")]),
    "Digit": iv.norm([_r("0", "9")]),
    "WordChar": iv.norm(_LETTER + [_r("0", "9")] + _pts("_")),
    "Punctuation": iv.norm([_r("!", "/"), _r(":", "@"), _r("[", "`"), _r("{", "~")]),
    "Whitespace": iv.norm(_pts(string.whitespace)),
    "GermanLetter": iv.norm(_LETTER + _pts("äöüßÄÖÜẞ")),
    "GreekLetter": iv.norm(_pts("Ά") + [_r("Έ", "ώ")]),
    "CyrillicLetter": iv.norm([_r("Ѐ", "ӿ")]),
    "CJK": iv.norm([(0x4E00, 0x9FD5)]),
    "HebrewLetter": iv.norm([(0x0590, 0x05FF)]),
    "KoreanLetter": iv.norm([(0x3131, 0x314E), (0xAC00, 0xD7A3)]),
}


class ModelExc(Exception):
    def __init__(self, name):
        super().__init__(name)
        self.name = name


def _arg_char(arg):
    """Model of a constructor argument: returns the character or raises ModelExc."""
    if isinstance(arg, list) and arg and arg[0] == "tok":
        return TOKENS[arg[1]]
    if isinstance(arg, list) and len(arg) == 2 and arg[0] == "lit" and isinstance(arg[1], str) and len(arg[1]) == 1:
        return arg[1]          # a one-character Pregex is accepted like a token
    if isinstance(arg, list):
        raise ModelExc("InvalidArgumentTypeException")      # a list, a multi-character or empty Pregex, ...
    if isinstance(arg, str):
        if len(arg) != 1:
            raise ModelExc("InvalidArgumentTypeException")
        return arg
    raise ModelExc("InvalidArgumentTypeException")


def model_eval(r, pool=None):
    """Returns ("cls", S, neg, tag) | ("chr", c) | ("tok", c); raises ModelExc.
    pool: model values of earlier let-bindings, for ["ref", k]."""
    op = r[0]
    if op == "ref":
        return pool[r[1]]
    if op == "chr":
        return ("chr", r[1])
    if op == "tok":
        return ("tok", TOKENS[r[1]])
    if op == "lit":
        return ("tok", r[1])
    if op == "Any":
        return ("cls", iv.norm([(0, iv.MAXCP)]), False, "any")
    if op == "named":
        name = r[1]
        neg = name.startswith("AnyBut")
        base = name[6:] if neg else name[3:]
        tag = "gword" if (base == "WordChar" and len(r) > 2 and r[2]) else None
        return ("cls", NAMED[base], neg, tag)
    if op in ("AnyFrom", "AnyButFrom"):
        if len(r) == 1:
            raise ModelExc("NotEnoughArgumentsException")
        pts = [ord(_arg_char(a)) for a in r[1:]]
        return ("cls", iv.from_points(pts), op == "AnyButFrom", None)
    if op in ("AnyBetween", "AnyButBetween"):
        a, b = _arg_char(r[1]), _arg_char(r[2])
        if ord(a) >= ord(b):
            raise ModelExc("InvalidRangeException")
        return ("cls", iv.norm([(ord(a), ord(b))]), op == "AnyButBetween", None)
    if op == "inv":
        x = model_eval(r[1], pool)
        if x[3] == "any":
            raise ModelExc("CannotBeNegatedException")
        return ("cls", x[1], not x[2], x[3] if x[3] == "gword" else None)
    if op in ("or", "sub"):
        x, y = model_eval(r[1], pool), model_eval(r[2], pool)
        exc = "CannotBeUnionedException" if op == "or" else "CannotBeSubtractedException"
        # which operand is "self" for the conversion rule
        if x[0] == "cls":
            self_, other, other_is_right = x, y, True
        else:
            self_, other, other_is_right = y, x, False
        if other[0] != "cls":
            if self_[2]:
                raise ModelExc(exc)           # negated class with a bare char/token
            other = ("cls", iv.from_points([ord(other[1])]), False, None)
        a, b = (self_, other) if other_is_right else (other, self_)
        if a[2] != b[2]:
            raise ModelExc(exc)
        if op == "or":
            if a[3] == "any" or b[3] == "any":
                return ("cls", iv.norm([(0, iv.MAXCP)]), False, "any")
            return ("cls", iv.union(a[1], b[1]), a[2], None)
        if b[3] == "any":
            raise ModelExc("EmptyClassException")
        if a[3] == "any":
            return ("cls", b[1], not b[2], b[3] if b[3] == "gword" else None)        # Any - B == ~B (a global word class stays one)
        if a[3] == "gword":
            raise ModelExc("GlobalWordCharSubtractionException")
        s = iv.difference(a[1], b[1])
        if not s:
            raise ModelExc("EmptyClassException")
        return ("cls", s, a[2], None)
    raise ValueError("unknown class recipe %r" % (r,))


def model_matched(v):
    """Code points matched by a model class value."""
    return iv.complement(v[1]) if v[2] else v[1]


def uses_gword(r):
    if not isinstance(r, list) or not r:
        return False
    if r[0] == "named" and len(r) > 2 and r[2]:
        return True
    if r[0] in ("or", "sub", "inv"):
        return any(uses_gword(x) for x in r[1:])
    if r[0] == "ref":
        return True        # conservative: a shared operand may be a global word class
    return False


# ---------------------------------------------------------------------------------------
# implementation side
# ---------------------------------------------------------------------------------------

ALL_CHARS = "".join(map(chr, range(iv.MAXCP + 1)))
FLAGS = re.MULTILINE | re.DOTALL


def build_class(r, ns):
    """Builds recipe r with the classes/tokens found in namespace ns (dict name -> object)."""
    op = r[0]
    if op == "chr":
        return r[1]
    if op == "tok":
        return ns[r[1]]()
    if op == "Any":
        return ns["Any"]()
    if op == "named":
        cls = ns[r[1]]
        return cls(is_global=True) if (len(r) > 2 and r[2]) else cls()
    if op in ("AnyFrom", "AnyButFrom"):
        return ns[op](*[build_class(a, ns) if isinstance(a, list) else a for a in r[1:]])
    if op in ("AnyBetween", "AnyButBetween"):
        return ns[op](*[build_class(a, ns) if isinstance(a, list) else a for a in r[1:3]])
    if op == "inv":
        return ~build_class(r[1], ns)
    if op == "or":
        return build_class(r[1], ns) | build_class(r[2], ns)
    if op == "sub":
        return build_class(r[1], ns) - build_class(r[2], ns)
    raise ValueError("unknown class recipe %r" % (r,))


_MS_CACHE = {}
SCANS = [0]


def matched_set(pattern, re_mod=re):
    """Cached front end of _matched_set (a pure function of the pattern text)."""
    hit = _MS_CACHE.get(pattern)
    if hit is None:
        if len(_MS_CACHE) > 4000:
            _MS_CACHE.clear()
        hit = _MS_CACHE[pattern] = _matched_set(pattern, re_mod)
        SCANS[0] += 1
    return hit


def _matched_set(pattern, re_mod=re):
    """Interval set of the code points c such that `pattern` matches the one-char string c.

    Also verifies that the pattern is a single one-character atom (so that every match
    has length one).  Returns (intervals, problem_or_None)."""
    try:
        one = re_mod.compile(pattern, FLAGS)
        runs = re_mod.compile("(?:%s)+" % pattern, FLAGS)
    except re.error as e:
        return None, "re.error: %s" % e
    out = [(m.start(), m.end() - 1) for m in runs.finditer(ALL_CHARS)]
    s = iv.norm(out)
    # single-character check: probe a few members in context
    problem = None
    for p in iv.first_points(s, 3) + ([s[-1][1]] if s else []):
        c = chr(p)
        for ctx in (c, "x" + c + "y", c + c):
            ms = [m.group(0) for m in one.finditer(ctx)]
            if any(len(m) != 1 for m in ms) or c not in ms:
                problem = "pattern %r is not a one-character class (on %r -> %r)" % (pattern, ctx, ms)
    if one.fullmatch("") is not None:
        problem = "pattern %r matches the empty string" % pattern
    return s, problem


def _zone(shorthand, ascii_pts):
    runs = re.compile("(?:%s)+" % shorthand).finditer(ALL_CHARS)
    return iv.difference(iv.norm([(m.start(), m.end() - 1) for m in runs]), ascii_pts)


_ZONES = {}


def zone_for(pattern, gword=False):
    """Unspecified code points: those that only the Unicode-aware meaning of a shorthand
    occurring in the emitted text adds."""
    if not _ZONES:
        _ZONES["d"] = _zone(r"\d", NAMED["Digit"])
        _ZONES["s"] = _zone(r"\s", NAMED["Whitespace"])
        _ZONES["w"] = _zone(r"\w", NAMED["WordChar"])
    z = ()
    i, n = 0, len(pattern)
    while i < n:
        if pattern[i] == "\\" and i + 1 < n:
            k = pattern[i + 1].lower()
            if pattern[i + 1] in "dswDSW":
                z = iv.union(z, _ZONES[k])
            i += 2
        else:
            i += 1
    if gword:
        z = iv.union(z, _ZONES["w"])
    return z


def all_zones():
    zone_for("")
    if "all" not in _ZONES:
        _ZONES["all"] = iv.union(iv.union(_ZONES["d"], _ZONES["s"]), _ZONES["w"])
    return _ZONES["all"]


def in_zone(ch, kinds="ds"):
    """Is ch one of the code points that only the Unicode-aware meaning of \\d / \\s / \\w adds?"""
    zone_for("")
    return any(iv.contains(_ZONES[k], ord(ch)) for k in kinds)


def own_exception(e):
    return type(e).__module__.endswith("pregex.core.exceptions")


def compare(recipe, ns, re_mod=re, pool=None, mpool=None, out=None):
    """Evaluates recipe in model and implementation.  Returns a dict:
       {"outcome": <str>, "ok": bool, "rule": <str|None>, "detail": <str>, "pattern": <str|None>}
    outcome is a configuration-independent summary (exception name or matched-set digest)."""
    try:
        mv = model_eval(recipe, mpool)
        mexc = None
    except ModelExc as e:
        mv, mexc = None, e.name
    from . import recipes
    try:
        obj = recipes.build(recipe, ns, pool)
        iexc = None
    except RecursionError as e:
        obj, iexc = None, e
    except Exception as e:                                   # noqa: BLE001
        obj, iexc = None, e
    if iexc is not None:
        name = type(iexc).__name__
        if mexc is not None:
            if name == mexc and own_exception(iexc):
                return {"outcome": "exc:" + name, "ok": True, "rule": None, "detail": "", "pattern": None}
            return {"outcome": "exc:" + name, "ok": False, "rule": "wrong_exception",
                    "detail": "model expects %s, implementation raised %s: %s" % (mexc, name, str(iexc)[:120]),
                    "pattern": None}
        return {"outcome": "exc:" + name, "ok": False, "rule": "unexpected_exception",
                "detail": "model expects a class, implementation raised %s: %s" % (name, str(iexc)[:160]),
                "pattern": None}
    pattern = str(obj)
    if out is not None:
        out["obj"], out["model"] = obj, mv
    if mexc is not None:
        return {"outcome": "pat", "ok": False, "rule": "missing_exception",
                "detail": "model expects %s, implementation returned %r" % (mexc, pattern), "pattern": pattern}
    s, problem = matched_set(pattern, re_mod)
    if s is None:
        return {"outcome": "invalid", "ok": False, "rule": "invalid_pattern",
                "detail": "emitted %r: %s" % (pattern, problem), "pattern": pattern}
    if problem:
        return {"outcome": "notclass", "ok": False, "rule": "not_a_class", "detail": problem, "pattern": pattern}
    want = model_matched(mv) if mv[0] == "cls" else iv.from_points([ord(mv[1])])
    diff = iv.difference(iv.symdiff(s, want), zone_for(pattern, uses_gword(recipe)))
    # configuration-independent summary: the code points that the Unicode-aware shorthands add are unspecified by
    # C06/C07, and whether a shorthand is emitted can depend on how ranges happened to be merged - so they are
    # left out of the summary that is compared across configurations
    core = iv.difference(s, all_zones())
    out = "set:%d:%s" % (iv.size(core), hash_intervals(core))
    if diff:
        extra = iv.difference(iv.difference(s, want), zone_for(pattern, uses_gword(recipe)))
        missing = iv.difference(iv.difference(want, s), zone_for(pattern, uses_gword(recipe)))
        return {"outcome": out, "ok": False, "rule": "wrong_set",
                "detail": "emitted %r matches extra %s, misses %s" % (pattern, iv.show(extra, 4), iv.show(missing, 4)),
                "pattern": pattern}
    return {"outcome": out, "ok": True, "rule": None, "detail": "", "pattern": pattern}


def hash_intervals(s):
    import hashlib
    return hashlib.sha256(repr(s).encode()).hexdigest()[:12]
