"""Simulated file system behind `open`.

simfs.open returns a *real* io.TextIOWrapper over a *real* io.BufferedReader over a SimRaw
(io.RawIOBase): decoding, newline translation and buffering are CPython's, only the byte
source - and the faults it meets - are simulated.
"""
import builtins
import errno
import io
import os

from .kernel import HarnessError

ROOT = "/pgsim/"


class SimStall(HarnessError):
    pass


class SimRaw(io.RawIOBase):
    def __init__(self, fs, path, data, faults):
        super().__init__()
        self.fs, self.path, self.data, self.pos = fs, path, data, 0
        self.faults = faults          # dict call-index -> fault
        self.calls = 0
        self.eofs = 0
        self.cap = 4 * len(data) + 64

    def readable(self):
        return True

    def seekable(self):
        return False

    def readinto(self, b):
        self.calls += 1
        fs = self.fs
        fs.stats["raw_reads"] += 1
        if self.calls > self.cap:
            raise SimStall("more than %d raw reads on %s" % (self.cap, self.path))
        f = self.faults.pop(self.calls, None)
        n = min(len(b), len(self.data) - self.pos)
        if f is not None:
            kind = f["kind"]
            if kind == "EINTR":
                fs.fired("EINTR")
                raise InterruptedError(errno.EINTR, "simulated EINTR")
            if kind == "EIO":
                fs.fired("EIO")
                fs.hard_fault = True
                raise OSError(errno.EIO, "simulated EIO")
            if kind == "short" and n > 1:
                k = max(1, min(int(f.get("n", 1)), n - 1))
                fs.fired("short_read")
                n = k
            if kind == "split" and n > 1:
                # cut inside the next multi-byte UTF-8 sequence, if there is one in range
                for i in range(self.pos + 1, self.pos + n):
                    if self.data[i] & 0xC0 == 0x80:
                        n = i - self.pos
                        fs.fired("split_utf8")
                        break
        if n == 0:
            self.eofs += 1
            if self.eofs > 3:
                raise SimStall("EOF returned %d times on %s" % (self.eofs, self.path))
            return 0
        b[:n] = self.data[self.pos:self.pos + n]
        # note when a chunk boundary falls inside a multi-byte sequence (reach probe)
        end = self.pos + n
        if end < len(self.data) and self.data[end] & 0xC0 == 0x80:
            fs.stats["mb_boundary"] += 1
        self.pos = end
        fs.stats["bytes"] += n
        return n

    def close(self):
        if not self.closed:
            self.fs.open_handles -= 1
        super().close()


class SimFS:
    """path -> list of versions (bytes) and the index of the current one."""

    def __init__(self, files, buffer_size=8192):
        self.files = {p: [bytes(v) for v in vs] for p, vs in files.items()}
        self.current = {p: 0 for p in files}
        self.removed = set()
        self.buffer_size = buffer_size
        self.stats = {"opens": 0, "raw_reads": 0, "bytes": 0, "mb_boundary": 0}
        self.fault_fired = {}
        self.armed_open = None        # fault for the next open()
        self.armed_reads = {}         # faults for the raw reads of the next open()
        self.hard_fault = False       # an EIO/ENOENT-like fault fired during the current op
        self.open_handles = 0
        self.engaged = 0              # opens seen during the current op
        self._real_open = builtins.open
        self._real_stat = os.stat
        self.now = 1700000000.0       # simulated clock (seconds); advanced by the plan's "dt"
        self.mtime = {p: self.now for p in files}

    def write(self, path, version):
        self.current[path] = version
        self.mtime[path] = self.now

    def stat(self, path, *a, **kw):
        """os.stat seam: simulated files have size and mtime of their current version."""
        if not isinstance(path, str) or not path.startswith(ROOT):
            return self._real_stat(path, *a, **kw)
        self.stats["stats"] = self.stats.get("stats", 0) + 1
        if path not in self.files or path in self.removed:
            raise FileNotFoundError(errno.ENOENT, "No such file or directory", path)
        t = self.mtime[path]
        ns = int(round(t * 1e9))
        return os.stat_result((0o100644, 1000 + sorted(self.files).index(path), 64, 1, 0, 0,
                               len(self.data(path)), int(t), int(t), int(t),
                               t, t, t, ns, ns, ns))

    def fired(self, kind):
        self.fault_fired[kind] = self.fault_fired.get(kind, 0) + 1

    def data(self, path):
        return self.files[path][self.current[path]]

    def arm(self, faults):
        self.armed_open = None
        self.armed_reads = {}
        for f in faults or ():
            if f.get("seam") == "open":
                self.armed_open = f
            elif f.get("seam") == "raw_read":
                self.armed_reads[int(f["call"])] = f

    def disarm(self):
        left = (1 if self.armed_open else 0) + len(self.armed_reads)
        self.armed_open, self.armed_reads = None, {}
        return left

    def open(self, file, mode="r", buffering=-1, encoding=None, errors=None, newline=None,
             closefd=True, opener=None):
        if not isinstance(file, str) or not file.startswith(ROOT):
            return self._real_open(file, mode, buffering, encoding, errors, newline, closefd, opener)
        self.stats["opens"] += 1
        self.engaged += 1
        if any(c in mode for c in "wax+"):
            raise HarnessError("code under test opened %s for writing (%s)" % (file, mode))
        f = self.armed_open
        if f is not None:
            self.armed_open = None
            self.hard_fault = True
            self.fired(f["kind"])
            code = getattr(errno, f["kind"])
            exc = {"ENOENT": FileNotFoundError, "EACCES": PermissionError,
                   "EISDIR": IsADirectoryError}.get(f["kind"], OSError)
            raise exc(code, "simulated " + f["kind"], file)
        if file not in self.files or file in self.removed:
            raise FileNotFoundError(errno.ENOENT, "No such file or directory", file)
        raw = SimRaw(self, file, self.data(file), self.armed_reads)
        self.armed_reads = {}
        self.open_handles += 1
        if buffering == 0:
            if "b" not in mode:
                raise ValueError("can't have unbuffered text I/O")
            return raw
        bs = self.buffer_size if buffering in (-1, 1) else buffering
        buf = io.BufferedReader(raw, buffer_size=max(1, bs))
        if "b" in mode:
            return buf
        return io.TextIOWrapper(buf, encoding=encoding or "utf-8", errors=errors, newline=newline)


def reference_texts(data):
    """Texts that count as 'the file's content' for data: the universal-newline decoding
    (what an independent TextIOWrapper gives) and - for content with CR or a BOM, where the
    property does not choose - the untranslated / BOM-stripped readings."""
    main = io.TextIOWrapper(io.BytesIO(data), encoding="utf-8").read()
    out = [main]
    raw = data.decode("utf-8")
    for t in (raw, raw.lstrip("﻿"), main.lstrip("﻿")):
        if t not in out:
            out.append(t)
    return out
