"""Deterministic task scheduler: a plan holds one op list per logical task and a schedule
(sequence of task ids).  Exactly one op of one task runs per step; entries that name a
finished task fall through to the next runnable one, and once the schedule is used up the
remaining ops run task by task - so every sub-plan of a plan is executable (needed for
shrinking)."""
from .kernel import HarnessError

MAX_STEPS = 2000


def run(plan, step):
    tasks = plan.get("tasks", [])
    n = len(tasks)
    pcs = [0] * n
    sched = plan.get("schedule", [])
    i = steps = 0
    switches = 0
    last = None
    while True:
        live = [t for t in range(n) if pcs[t] < len(tasks[t])]
        if not live:
            break
        if i < len(sched):
            t = sched[i] % n if n else 0
            i += 1
            if pcs[t] >= len(tasks[t]):
                t = min(live, key=lambda x: (x - t) % n)
        else:
            t = live[0]
        op = tasks[t][pcs[t]]
        idx = pcs[t]
        pcs[t] += 1
        steps += 1
        if steps > MAX_STEPS:
            raise HarnessError("scheduler step cap hit")
        if last is not None and last != t:
            switches += 1
        last = t
        step(t, idx, op)
    return {"steps": steps, "switches": switches}
