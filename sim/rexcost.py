"""Workload guard: is matching with this regex text potentially super-polynomial on a failing subject?

Used only to decide whether a *probe* (matching a generated pattern against the run's probe texts) is executed; it judges
nothing.  A pattern is 'risky' when an unbounded (or large) repetition contains an alternation, a variable-width
repetition or another unbounded repetition, or when more than five unbounded repetitions are strung together."""
import re

try:
    from re import _parser as _p
    from re import _constants as _c
except ImportError:                                           # pragma: no cover
    _p = _c = None

_CACHE = {}


def risky(pattern, flags=re.MULTILINE | re.DOTALL):
    hit = _CACHE.get(pattern)
    if hit is None:
        if len(_CACHE) > 5000:
            _CACHE.clear()
        hit = _CACHE[pattern] = _risky(pattern, flags)
    return hit


def _risky(pattern, flags):
    if _p is None:
        return False
    try:
        tree = _p.parse(pattern, flags)
    except Exception:                                         # noqa: BLE001
        return False
    state = {"unbounded": 0}

    def variable(nodes):
        """contains an alternation or a repetition with min != max"""
        for op, av in nodes:
            if op is _c.BRANCH:
                return True
            if op in (_c.MAX_REPEAT, _c.MIN_REPEAT) or op == getattr(_c, "POSSESSIVE_REPEAT", None):
                lo, hi, sub = av
                if lo != hi or variable(sub):
                    return True
            elif op is _c.SUBPATTERN:
                if variable(av[-1]):
                    return True
            elif op in (_c.ASSERT, _c.ASSERT_NOT):
                if variable(av[1]):
                    return True
            elif op is _c.GROUPREF_EXISTS:
                return True
        return False

    def walk(nodes):
        for op, av in nodes:
            if op in (_c.MAX_REPEAT, _c.MIN_REPEAT) or op == getattr(_c, "POSSESSIVE_REPEAT", None):
                lo, hi, sub = av
                big = hi == _c.MAXREPEAT or hi > 6
                if big:
                    state["unbounded"] += 1
                    if variable(sub):
                        return True
                if walk(sub):
                    return True
            elif op is _c.SUBPATTERN:
                if walk(av[-1]):
                    return True
            elif op is _c.BRANCH:
                for alt in av[1]:
                    if walk(alt):
                        return True
            elif op in (_c.ASSERT, _c.ASSERT_NOT):
                if walk(av[1]):
                    return True
            elif op is _c.GROUPREF_EXISTS:
                for part in av[1:]:
                    if part is not None and walk(part):
                        return True
        return False
    return bool(walk(tree)) or state["unbounded"] > 5
