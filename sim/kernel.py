"""Kernel of the simulator: one integer decides everything.

run_seed = H(VERIF_SEED, property, run_index); independent PRNG streams are derived from
it by name.  The executor never draws randomness: a run is generated up front into a plan
(plain JSON data) and then interpreted.  The event log never reads a clock, never draws
from a PRNG and never iterates a set in hash order.
"""
import hashlib
import json
import random

DEFAULT_VERIF_SEED = 20261002
FORMAT = "pgsim/1"


def H(*parts):
    h = hashlib.sha256()
    for p in parts:
        h.update(repr(p).encode("utf-8", "surrogatepass"))
        h.update(b"\x00")
    return int.from_bytes(h.digest()[:8], "big")


def stream(run_seed, name):
    return random.Random(H(run_seed, name))


def canon(x):
    """Canonical JSON text (sorted keys, surrogate-safe) used for digests and logs."""
    return json.dumps(x, sort_keys=True, ensure_ascii=True, separators=(",", ":"), default=_default)


def _default(o):
    if isinstance(o, (set, frozenset)):
        return sorted(map(repr, o))
    if isinstance(o, bytes):
        return o.hex()
    if isinstance(o, tuple):
        return list(o)
    return repr(o)


class EventLog:
    def __init__(self, keep=True):
        self._h = hashlib.sha256()
        self.lines = [] if keep else None
        self.n = 0

    def add(self, *fields):
        line = canon(list(fields))
        self._h.update(line.encode("ascii"))
        self._h.update(b"\n")
        self.n += 1
        if self.lines is not None:
            self.lines.append(line)

    def digest(self):
        return self._h.hexdigest()[:24]


class Violation(Exception):
    """Raised by an executor when an oracle rule fails."""

    def __init__(self, rule, detail):
        super().__init__("%s: %s" % (rule, detail))
        self.rule = rule
        self.detail = detail


class HarnessError(Exception):
    """Something is wrong with the harness itself (cap hit, seam bypassed...)."""


def digest_of(x):
    return hashlib.sha256(canon(x).encode("ascii")).hexdigest()[:16]
