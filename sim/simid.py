"""The object-identity seam: a deterministic stand-in for the builtin id().

CPython reuses the address of a dead object for the next allocation of the same size whenever
its allocator happens to; which objects collide depends on allocator state that no plan
controls, so a history that trips over a recycled id would not replay.  SimId hands out
address-like numbers itself and *always* recycles the number of the most recently dead tracked
object (LIFO, like a free list), which is one of the behaviours the real allocator may show.
Installed as the module global `id` of the pregex modules; never changes what id() means for
live objects (distinct live objects always get distinct numbers).
"""
import weakref

_real_id = id
BASE = 0x7F5A00000000


class SimId:
    def __init__(self):
        self.live = {}         # real id -> (sim id, weakref)
        self.free = []
        self.next = 0
        self.recycled = 0
        self.calls = 0

    def __call__(self, obj):
        self.calls += 1
        rid = _real_id(obj)
        e = self.live.get(rid)
        if e is not None and e[1]() is obj:
            return e[0]
        if self.free:
            sid = self.free.pop()
            self.recycled += 1
        else:
            sid = BASE + 64 * self.next
            self.next += 1
        try:
            wr = weakref.ref(obj, lambda _w, rid=rid, sid=sid: self._dead(rid, sid))
        except TypeError:
            return rid
        self.live[rid] = (sid, wr)
        return sid

    def _dead(self, rid, sid):
        e = self.live.get(rid)
        if e is not None and e[0] == sid:
            del self.live[rid]
        self.free.append(sid)


def install(inst):
    s = SimId()
    for m in inst.mods.values():
        m.id = s
    return s
