"""Orchestrator: replays known findings, runs the seeded search in worker interpreters
(explicit PYTHONHASHSEED each, one process per shard), confirms every violation by replaying
its minimised plan in a fresh interpreter, writes the evidence file, prints VIOLATION /
KNOWN-FINDING lines.  Exit 0 = held on everything explored, 1 = violation, 2 = harness error.
"""
import argparse
import concurrent.futures
import json
import os
import shutil
import subprocess
import sys
import tempfile
import time

from . import kernel

ROOT = os.path.dirname(os.path.dirname(os.path.abspath(__file__)))
PY = sys.executable
SHARD = 200

# per property: runs per tier, replicas (how many real hash seeds each run index is executed under)
TIERS = {
    "C14": {"quick": (16000, 1), "thorough": (400000, 1)},
    "C11": {"quick": (24000, 1), "thorough": (800000, 1)},
    "C20": {"quick": (2000, 2), "thorough": (40000, 3)},
    "C07": {"quick": (4000, 2), "thorough": (60000, 3)},
    "C06": {"quick": (4000, 2), "thorough": (80000, 3)},
    "C03": {"quick": (6000, 2), "thorough": (80000, 3)},
}


def hashseed_for(verif_seed, shard, replica):
    return kernel.H(verif_seed, "hashseed", shard, replica) % 4294967296


def spawn(args, hashseed, timeout):
    env = dict(os.environ)
    env["PYTHONHASHSEED"] = str(hashseed)
    env["PYTHONDONTWRITEBYTECODE"] = "1"
    cmd = [PY, "-W", "ignore", os.path.join(ROOT, "sim", "worker_main.py"), json.dumps(args)]
    try:
        p = subprocess.run(cmd, env=env, stdout=subprocess.PIPE, stderr=subprocess.PIPE, timeout=timeout, cwd=ROOT)
    except subprocess.TimeoutExpired as e:
        return None, "timeout after %ss: %s" % (timeout, (e.stderr or b"")[-2000:].decode("utf-8", "replace"))
    lines = []
    for ln in p.stdout.decode("utf-8", "replace").splitlines():
        ln = ln.strip()
        if ln.startswith("{"):
            try:
                lines.append(json.loads(ln))
            except ValueError:
                pass
    if p.returncode != 0:
        return lines, "worker exit %d: %s" % (p.returncode, p.stderr[-3000:].decode("utf-8", "replace"))
    return lines, None


def replay_file(path, src, hashseed=None, verbose=False, force_single=False):
    with open(path) as f:
        plan = json.load(f)
    seeds = plan.get("config", {}).get("hashseeds")
    if seeds and not force_single:
        # a configuration-dependence finding: execute under each recorded hash seed and compare outcomes
        outs = [outcome_under(path, src, h) for h in seeds]
        for o in outs:
            if o[0] == "violation":
                return {"status": "violation", "rule": o[1], "detail": "violation under one of the recorded hash seeds"}, plan
            if o[0] != "ok":
                return {"status": "harness_error", "detail": str(o)}, plan
        if len(set(json.dumps(o) for o in outs)) > 1:
            return {"status": "violation", "rule": plan.get("expect", {}).get("rule"),
                    "detail": "outcomes under PYTHONHASHSEED %s: %s" % (seeds, outs)}, plan
        return {"status": "ok", "digest": None, "outcome": outs[0][1]}, plan
    hs = plan.get("config", {}).get("hashseed", 0) if hashseed is None else hashseed
    args = {"mode": "replay", "property": plan["property"], "src": src, "file": os.path.abspath(path),
            "watchdog": 120, "verbose": verbose}
    lines, err = spawn(args, hs, 180)
    if err or not lines:
        return {"status": "harness_error", "detail": err or "no output"}, plan
    return lines[-1], plan


def load_known(prop):
    path = os.path.join(ROOT, "known_findings.json")
    if not os.path.exists(path):
        return []
    with open(path) as f:
        data = json.load(f)
    return [e for e in data.get("entries", []) if e.get("property") == prop]


def main(argv=None):
    ap = argparse.ArgumentParser(prog="check")
    ap.add_argument("property")
    ap.add_argument("--tier", default=os.environ.get("VERIF_TIER", "quick"), choices=["quick", "thorough"])
    ap.add_argument("--replay")
    ap.add_argument("--src", default="/repo/src")
    ap.add_argument("--workers", type=int, default=min(16, os.cpu_count() or 4))
    ap.add_argument("--runs", type=int)
    ap.add_argument("--seed", type=int, default=int(os.environ.get("VERIF_SEED", kernel.DEFAULT_VERIF_SEED)))
    ap.add_argument("--no-evidence", action="store_true")
    ap.add_argument("--replay-dir", help="where to keep replay files of reported violations (default /verif/replays)")
    ap.add_argument("--verbose", action="store_true")
    a = ap.parse_args(argv)
    for stream_ in (sys.stdout, sys.stderr):
        try:
            stream_.reconfigure(errors="backslashreplace")      # details may quote lone surrogates
        except Exception:                                         # noqa: BLE001
            pass
    prop = a.property.upper()
    t0 = time.time()

    if a.replay:
        res, plan = replay_file(a.replay, a.src, verbose=a.verbose)
        print("replay %s under PYTHONHASHSEED=%s: %s" % (a.replay, plan.get("config", {}).get("hashseed"), res.get("status")))
        if res["status"] == "violation":
            exp = plan.get("expect", {})
            same = (exp.get("rule") in (None, res["rule"]))
            print("  rule=%s%s\n  %s" % (res["rule"], "" if same else " (file expects %s)" % exp.get("rule"), res["detail"]))
            print("VIOLATION property=%s replay=%s" % (prop, a.replay))
            return 1
        if res["status"] == "harness_error":
            print("HARNESS-ERROR " + str(res.get("detail")))
            return 2
        if a.verbose and res.get("log"):
            print("\n".join(res["log"]))
        print("  no violation on this tree (event digest %s)" % res.get("digest"))
        return 0

    print("VERIF_SEED=%d property=%s tier=%s src=%s workers=%d" % (a.seed, prop, a.tier, a.src, a.workers))
    sys.stdout.flush()
    runs, replicas = TIERS[prop][a.tier]
    if a.runs:
        runs = a.runs
    nshards = (runs + SHARD - 1) // SHARD
    scratch = tempfile.mkdtemp(prefix="pgsim-%s-" % prop)
    exit_code = 0
    known_lines, violations, harness_errors = [], [], []
    try:
        # --- 1. known findings / fixed witnesses ------------------------------------------
        known_seen = {}
        for e in load_known(prop):
            path = os.path.join(ROOT, e["witness"])
            res, plan = replay_file(path, a.src)
            if e["kind"] == "known":
                if res["status"] == "violation":
                    known_seen[plan.get("expect", {}).get("fingerprint")] = e
                    line = "KNOWN-FINDING: property=%s %s [%s]" % (prop, e["what"], e["witness"])
                    print(line)
                    known_lines.append(line)
                elif res["status"] == "harness_error":
                    harness_errors.append("known witness %s: %s" % (e["witness"], res.get("detail")))
                else:
                    print("note: known finding no longer reproduces: %s" % e["witness"])
            else:   # fixed: an ordinary regression plan that must pass
                if res["status"] == "violation":
                    violations.append({"rule": res["rule"], "detail": res["detail"], "replay": path,
                                       "origin": "fixed-witness " + e.get("commit", "")})
                elif res["status"] == "harness_error":
                    harness_errors.append("fixed witness %s: %s" % (e["witness"], res.get("detail")))
        # --- 2. seeded search ----------------------------------------------------------------
        jobs = [(s, r) for s in range(nshards) for r in range(replicas)]
        results = {}
        per_shard_timeout = 900 if a.tier == "thorough" else 300

        def work(job):
            s, r = job
            args = {"mode": "explore", "property": prop, "src": a.src, "tier": a.tier, "verif_seed": a.seed,
                    "start": s * SHARD, "count": min(SHARD, runs - s * SHARD), "outdir": scratch,
                    "watchdog": per_shard_timeout - 10, "sample_every": SHARD * max(1, nshards // 4)}
            return job, spawn(args, hashseed_for(a.seed, s, r), per_shard_timeout)

        with concurrent.futures.ThreadPoolExecutor(max_workers=a.workers) as ex:
            for job, (lines, err) in ex.map(work, jobs):
                results[job] = lines or []
                if err:
                    harness_errors.append("shard %s: %s" % (job, err))
        # --- 3. aggregate ---------------------------------------------------------------------
        agg = Aggregate(prop)
        for (s, r) in sorted(results):
            for ln in results[(s, r)]:
                agg.add(ln, s, r, hashseed_for(a.seed, s, r))
        # cross-replica (real hash seed) comparison of configuration-independent outcomes
        for (i, outs) in sorted(agg.outcomes.items()):
            vals = sorted(set(json.dumps(o) for o, _ in outs if o is not None))
            if len(vals) > 1:
                agg.cross_mismatch.append({"i": i, "outcomes": outs})
        for m in agg.cross_mismatch[:2]:
            v = confirm_cross(prop, a, m, scratch)
            if v:
                violations.append(v)
        for v in agg.violations:
            violations.append(v)
        harness_errors.extend(agg.harness[:10])
        # --- 4. confirm violations by replay in a fresh interpreter ------------------------------
        reported = []
        seen_fp = set()
        for v in violations:
            fp = v.get("fingerprint")
            if fp in seen_fp or ("run", v.get("i")) in seen_fp:
                continue
            seen_fp.add(fp)
            if v.get("i") is not None:
                seen_fp.add(("run", v.get("i")))
            if "origin" in v and v["origin"].startswith("fixed-witness"):
                reported.append(v)
                continue
            res, plan = replay_file(v["replay"], a.src)
            if res["status"] != "violation" or res.get("rule") != v["rule"]:
                harness_errors.append("violation did not replay (%s): %s -> %s" % (v["replay"], v["rule"], res))
                continue
            if plan.get("expect", {}).get("fingerprint") in known_seen:
                continue
            dest_dir = a.replay_dir or os.path.join(ROOT, "replays")
            os.makedirs(dest_dir, exist_ok=True)
            dest = os.path.join(dest_dir, os.path.basename(v["replay"]))
            shutil.copyfile(v["replay"], dest)
            v["replay"] = dest
            reported.append(v)
            if len(reported) >= 3:
                break
        for v in reported:
            print("violation: rule=%s run=%s\n  %s" % (v["rule"], v.get("i"), v["detail"]))
            print("VIOLATION property=%s replay=%s" % (prop, v["replay"]))
            exit_code = 1
        wall = time.time() - t0
        if harness_errors:
            for h in harness_errors[:10]:
                print("HARNESS-ERROR " + h[:1500])
            if exit_code == 0:
                exit_code = 2
        ev = agg.evidence(a, runs, replicas, wall, len(reported), known_lines, harness_errors)
        if not a.no_evidence:
            os.makedirs(os.path.join(ROOT, "evidence"), exist_ok=True)
            with open(os.path.join(ROOT, "evidence", "%s.json" % prop), "w") as f:
                json.dump(ev, f, indent=1, ensure_ascii=True)
        c = ev["coverage"]
        print("%s %s: %d evaluations (%d run indices x %d hash-seed replicas), %d distinct non-trivial, "
              "%d violations, %d known findings, %.1fs, %.0f runs/h"
              % (prop, a.tier, c["evaluations"], runs, replicas, c["distinct_nontrivial"], len(reported),
                 len(known_lines), wall, c["runs_per_hour"]))
        for w in ev["coverage"].get("warnings", []):
            print("warning: " + w)
    finally:
        shutil.rmtree(scratch, ignore_errors=True)
    return exit_code


def outcome_under(plan_path, src, hashseed):
    res, _ = replay_file(plan_path, src, hashseed=hashseed, force_single=True)
    if res.get("status") == "ok":
        return ("ok", res.get("outcome"))
    return (res.get("status"), res.get("rule") or res.get("detail"))


def _first_diff(a, b):
    if a[0] == "ok" and b[0] == "ok" and isinstance(a[1], list) and isinstance(b[1], list):
        for x, y in zip(a[1], b[1]):
            if x != y:
                return "first difference at step/object %s: %s vs %s" % (x[0] if isinstance(x, list) and x else "?", x, y)
    return "%s vs %s" % (str(a)[:300], str(b)[:300])


def confirm_cross(prop, a, m, scratch):
    """A run index gave different configuration-independent outcomes under two real hash seeds.
    Re-generate the plan here (generation is a pure function of the seed), confirm the difference in
    fresh interpreters, minimise greedily over ops, and write a replay file naming both seeds."""
    import copy
    import importlib
    mod = importlib.import_module("checks." + prop.lower())
    run_seed = kernel.H(a.seed, prop, m["i"])
    gi = getattr(mod, "generate_indexed", None)
    plan = gi(m["i"], run_seed, a.tier) if gi else mod.generate(run_seed, a.tier)
    seeds = []
    for _, h in m["outcomes"]:
        if h not in seeds:
            seeds.append(h)
    seeds = seeds[:2]
    plan.update({"format": kernel.FORMAT, "property": prop,
                 "origin": {"verif_seed": a.seed, "run_index": m["i"], "run_seed": "%016x" % run_seed, "tier": a.tier}})
    plan.setdefault("config", {})["hashseed"] = seeds[0]
    tmp = os.path.join(scratch, "cross-%d.json" % m["i"])

    def differs(p):
        with open(tmp, "w") as f:
            json.dump(p, f)
        o = [outcome_under(tmp, a.src, h) for h in seeds]
        return o[0] != o[1], o

    bad, o = differs(plan)
    if not bad:
        return None
    budget = 24
    changed = True
    while changed and budget > 0:
        changed = False
        for ti in range(len(plan.get("tasks", []))):
            oi = len(plan["tasks"][ti]) - 1
            while oi >= 0 and budget > 0:
                q = copy.deepcopy(plan)
                del q["tasks"][ti][oi]
                budget -= 1
                b2, o2 = differs(q)
                if b2:
                    plan, o, changed = q, o2, True
                oi -= 1
    plan["config"]["hashseeds"] = seeds
    rule = "%s.hash_seed_dependent" % prop
    detail = "the same plan gives different outcomes under PYTHONHASHSEED=%d and %d: %s" % (seeds[0], seeds[1], _first_diff(o[0], o[1]))
    plan["expect"] = {"rule": rule, "detail": detail,
                      "fingerprint": kernel.digest_of([rule, plan.get("tasks"), plan.get("program"), plan.get("world")])}
    path = os.path.join(scratch, "%s-%s.json" % (prop, plan["expect"]["fingerprint"]))
    with open(path, "w") as f:
        json.dump(plan, f, indent=1, ensure_ascii=True, sort_keys=True)
    return {"rule": rule, "detail": detail, "replay": path, "i": m["i"], "fingerprint": plan["expect"]["fingerprint"]}


class Aggregate:
    def __init__(self, prop):
        self.prop = prop
        self.n = 0
        self.skipped = 0
        self.digests = set()
        self.nontrivial_digests = set()
        self.plan_digests = set()
        self.stats = {}
        self.faults = {}
        self.cover = set()
        self.samples = []
        self.violations = []
        self.harness = []
        self.outcomes = {}
        self.cross_mismatch = []
        self.hashseeds = set()
        self.cpu = 0.0
        self.more_violations = 0

    def add(self, ln, shard, replica, hashseed):
        st = ln.get("status")
        if st == "ok":
            self.n += 1
            self.hashseeds.add(hashseed)
            self.digests.add(ln["digest"])
            self.plan_digests.add(ln.get("plan_digest"))
            if ln.get("nontrivial"):
                self.nontrivial_digests.add(ln["digest"])
            for k, v in (ln.get("stats") or {}).items():
                if isinstance(v, (int, float)):
                    self.stats[k] = self.stats.get(k, 0) + v
            for k, v in (ln.get("faults_fired") or {}).items():
                self.faults[k] = self.faults.get(k, 0) + v
            self.cover.update(ln.get("cover") or ())
            self.cpu += ln.get("t", 0)
            if "sample" in ln and len(self.samples) < 4 and replica == 0:
                self.samples.append({"run_index": ln["i"], "hashseed": hashseed, "event_digest": ln["digest"],
                                     "plan": ln["sample"]})
            if ln.get("outcome") is not None:
                self.outcomes.setdefault(ln["i"], []).append((ln["outcome"], hashseed))
        elif st == "violation":
            self.n += 1
            self.violations.append({"rule": ln["rule"], "detail": ln["detail"], "replay": ln["replay"],
                                    "i": ln["i"], "fingerprint": ln.get("fingerprint"), "shrink": ln.get("shrink")})
        elif st == "violation_more":
            self.n += 1
            self.more_violations += 1
        elif st == "harness_error":
            self.harness.append("run %s: %s" % (ln.get("i"), ln.get("detail")))
        elif st == "skipped_deadline":
            self.skipped += 1

    def evidence(self, a, runs, replicas, wall, nviol, known_lines, harness_errors):
        import importlib
        mod = importlib.import_module("checks." + self.prop.lower())
        meta = getattr(mod, "EVIDENCE", {})
        warnings = []
        for probe in meta.get("probes", []):
            if not self.stats.get(probe):
                warnings.append("reach probe %r stayed at zero" % probe)
        for k in meta.get("fault_kinds", []):
            if not self.faults.get(k):
                warnings.append("fault kind %r never fired" % k)
        cov = {
            "evaluations": self.n,
            "distinct_nontrivial": len(self.nontrivial_digests),
            "rule": meta.get("rule", ""),
            "samples": self.samples or [{"note": "no sample captured"}],
            "distinct_event_digests": len(self.digests),
            "distinct_plans": len(self.plan_digests),
            "run_indices": runs, "hash_seed_replicas": replicas,
            "real_hash_seeds_used": len(self.hashseeds),
            "runs_per_hour": round(self.n / wall * 3600) if wall > 0 else 0,
            "run_seeds_per_hour": round(len(self.plan_digests) / wall * 3600) if wall > 0 else 0,
            "seeds_per_hour_note": "one VERIF_SEED per invocation; every run index derives its own run seed "
                                   "(run_seeds_per_hour counts distinct run seeds, runs_per_hour counts executions incl. hash-seed replicas)",
            "simulated_time": {"scheduler_steps": self.stats.get("steps", 0),
                               "virtual_bytes_read": self.stats.get("bytes", 0),
                               "simulated_clock_seconds": round(self.stats.get("sim_clock_seconds", 0), 3)},
            "faults_fired": dict(sorted(self.faults.items())),
            "reach_probes": {k: self.stats.get(k, 0) for k in meta.get("probes", [])},
            "counters": dict(sorted(self.stats.items())),
            "abstract_transitions_covered": len(self.cover),
            "abstract_transition_measure": meta.get("measure", ""),
            "components": meta.get("components", {}),
            "worker_cpu_seconds": round(self.cpu, 1),
            "violating_runs_not_minimised": self.more_violations,
            "known_findings": known_lines,
            "harness_errors": harness_errors[:5],
            "warnings": warnings,
        }
        return {
            "property_id": self.prop, "tier": a.tier, "seed": a.seed, "level": "exploration",
            "coverage": cov,
            "assumptions": meta.get("assumptions", []),
            "wall_s": round(wall, 2),
            "violations": nviol,
        }
