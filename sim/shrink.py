"""Plan minimisation: ddmin over ops, faults, tasks and schedule, then property-specific
argument shrinking.  A candidate is accepted only if it fails with the *same oracle rule*.
Every candidate is re-executed deterministically (execution is a pure function of the plan,
the tree and the interpreter's hash seed)."""
import copy
import time


def _size(plan):
    return (sum(len(t) for t in plan.get("tasks", [])),
            sum(len(op.get("faults") or ()) for t in plan.get("tasks", []) for op in t),
            len(plan.get("schedule", [])), len(repr(plan)))


def minimise(plan, fails, extra_candidates=None, budget_runs=400, budget_s=20.0):
    """fails(plan) -> bool (same rule still violated).  Returns (plan, stats)."""
    t0 = time.time()
    runs = [0]

    def exhausted():
        return runs[0] >= budget_runs or time.time() - t0 > budget_s

    def ok(p):
        if exhausted():
            return False
        runs[0] += 1
        try:
            return fails(p)
        except Exception:                                  # noqa: BLE001
            return False

    best = copy.deepcopy(plan)
    start = _size(best)
    changed = True
    rounds = 0
    while changed and rounds < 6 and not exhausted():
        changed = False
        rounds += 1
        # 1. drop whole tasks
        ti = 0
        while ti < len(best.get("tasks", [])):
            if len(best["tasks"]) > 1 or best["tasks"][ti]:
                q = copy.deepcopy(best)
                q["tasks"][ti] = []
                if best["tasks"][ti] and ok(q):
                    best, changed = q, True
            ti += 1
        # 2. ddmin over the ops of each task
        for ti in range(len(best.get("tasks", []))):
            ops = best["tasks"][ti]
            chunk = max(1, len(ops) // 2)
            while ops and chunk >= 1 and not exhausted():
                i = 0
                while i < len(ops) and not exhausted():
                    q = copy.deepcopy(best)
                    q["tasks"][ti] = ops[:i] + ops[i + chunk:]
                    if ok(q):
                        best, changed = q, True
                        ops = best["tasks"][ti]
                    else:
                        i += chunk
                if chunk == 1:
                    break
                chunk //= 2
        # 3. drop faults one at a time
        for ti in range(len(best.get("tasks", []))):
            for oi in range(len(best["tasks"][ti])):
                fl = best["tasks"][ti][oi].get("faults") or []
                fi = 0
                while fi < len(fl):
                    q = copy.deepcopy(best)
                    del q["tasks"][ti][oi]["faults"][fi]
                    if ok(q):
                        best, changed = q, True
                        fl = best["tasks"][ti][oi].get("faults") or []
                    else:
                        fi += 1
        # 4. schedule: sequential, then shorter
        if best.get("schedule"):
            q = copy.deepcopy(best)
            q["schedule"] = []
            if ok(q):
                best, changed = q, True
            else:
                sc = best["schedule"]
                chunk = max(1, len(sc) // 2)
                while sc and chunk >= 1 and not exhausted():
                    i = 0
                    while i < len(sc) and not exhausted():
                        q = copy.deepcopy(best)
                        q["schedule"] = sc[:i] + sc[i + chunk:]
                        if ok(q):
                            best, changed = q, True
                            sc = best["schedule"]
                        else:
                            i += chunk
                    if chunk == 1:
                        break
                    chunk //= 2
        # 5. drop "dt" delays
        for ti in range(len(best.get("tasks", []))):
            for oi in range(len(best["tasks"][ti])):
                if "dt" in best["tasks"][ti][oi]:
                    q = copy.deepcopy(best)
                    del q["tasks"][ti][oi]["dt"]
                    if ok(q):
                        best, changed = q, True
        # 6. property specific argument shrinking (greedy, restart after each success)
        if extra_candidates is not None:
            progress = True
            while progress and not exhausted():
                progress = False
                for q in extra_candidates(best):
                    if exhausted():
                        break
                    if ok(q):
                        best, changed, progress = q, True, True
                        break
    # remove empty tasks (keeps schedule meaningful: remap ids)
    live = [i for i, t in enumerate(best.get("tasks", [])) if t]
    if len(live) != len(best.get("tasks", [])):
        q = copy.deepcopy(best)
        remap = {old: new for new, old in enumerate(live)}
        q["tasks"] = [best["tasks"][i] for i in live]
        q["schedule"] = [remap[s % len(best["tasks"])] for s in best.get("schedule", [])
                         if (s % len(best["tasks"])) in remap] if best.get("tasks") else []
        if ok(q):
            best = q
    return best, {"runs": runs[0], "seconds": round(time.time() - t0, 2), "from": start, "to": _size(best)}
