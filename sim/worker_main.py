import os
import sys

sys.path.insert(0, os.path.dirname(os.path.dirname(os.path.abspath(__file__))))

from sim import worker  # noqa: E402

if __name__ == "__main__":
    sys.exit(worker.main(sys.argv))
