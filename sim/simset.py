"""The set-order seam: a `set` subclass whose iteration order is decided by the run's order
key instead of by the interpreter's string hash.

Installed as the module global `set` of pregex.core.classes, so every `set(...)` call there
builds a SimSet; set algebra on a SimSet returns a SimSet.  Iteration order is
    sorted(elements, key=(vh(e) & mask(len), vh(e)))     with vh = PRF(order_key, e)
which mimics a hash-table walk (ordered by the low bits of a per-key virtual hash, changing
with table size) and is consistent across sets like a real hash function.  Special keys:
"sorted" and "reverse".
"""
import hashlib

_builtin_set = set


class _State:
    key = "sorted"
    cache = {}
    iterations = 0
    noncanonical = 0
    orders = _builtin_set()
    track_orders = False


def configure(key, track_orders=False):
    _State.key = key
    _State.cache = {}
    _State.iterations = 0
    _State.noncanonical = 0
    _State.orders = _builtin_set()
    _State.track_orders = track_orders


def counters():
    return {"iterations": _State.iterations, "noncanonical": _State.noncanonical,
            "orders": len(_State.orders)}


def _vh(e):
    c = _State.cache
    v = c.get(e)
    if v is None:
        h = hashlib.blake2b(("%r|%r" % (_State.key, e)).encode("utf-8", "surrogatepass"), digest_size=8)
        v = c[e] = int.from_bytes(h.digest(), "big")
    return v


def _mask(n):
    m = 8
    while n * 5 >= m * 3:
        m <<= 1
    return m - 1


def _order(elems):
    key = _State.key
    try:
        base = sorted(elems)
    except TypeError:
        base = sorted(elems, key=repr)
    if key == "sorted":
        out = base
    elif key == "reverse":
        out = base[::-1]
    else:
        m = _mask(len(base))
        out = sorted(base, key=lambda e: (_vh(e) & m, _vh(e)))
    _State.iterations += 1
    if len(base) > 1:
        if out != base:
            _State.noncanonical += 1
        if _State.track_orders:
            _State.orders.add(tuple(out))
    return out


class SimSet(_builtin_set):
    __slots__ = ()

    def __iter__(self):
        return iter(_order(list(_builtin_set.__iter__(self))))

    def pop(self):
        if not len(self):
            raise KeyError("pop from an empty set")
        e = _order(list(_builtin_set.__iter__(self)))[0]
        _builtin_set.remove(self, e)
        return e

    def copy(self):
        return SimSet(_builtin_set.__iter__(self))

    def union(self, *others):
        return SimSet(_builtin_set.union(self, *others))

    def difference(self, *others):
        return SimSet(_builtin_set.difference(self, *others))

    def intersection(self, *others):
        return SimSet(_builtin_set.intersection(self, *others))

    def symmetric_difference(self, other):
        return SimSet(_builtin_set.symmetric_difference(self, other))

    def __or__(self, other):
        r = _builtin_set.__or__(self, other)
        return r if r is NotImplemented else SimSet(r)

    def __and__(self, other):
        r = _builtin_set.__and__(self, other)
        return r if r is NotImplemented else SimSet(r)

    def __sub__(self, other):
        r = _builtin_set.__sub__(self, other)
        return r if r is NotImplemented else SimSet(r)

    def __xor__(self, other):
        r = _builtin_set.__xor__(self, other)
        return r if r is NotImplemented else SimSet(r)

    __ror__ = __or__
    __rand__ = __and__

    def __rsub__(self, other):
        r = _builtin_set.__rsub__(self, other)
        return r if r is NotImplemented else SimSet(r)

    __rxor__ = __xor__

    def __repr__(self):
        return "SimSet(%r)" % (list(self),)


def install(classes_module):
    classes_module.set = SimSet


def uninstall(classes_module):
    classes_module.__dict__.pop("set", None)
