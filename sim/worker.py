"""Worker: one interpreter (started with an explicit PYTHONHASHSEED) that executes one shard
of runs, or replays / minimises one plan.  Prints one JSON line per run on stdout."""
import copy
import faulthandler
import gc
import importlib
import json
import os
import re
import sys
import time

from . import kernel, loader, shrink
from .kernel import H, HarnessError, Violation

CHECKS = {"C14": "checks.c14", "C11": "checks.c11", "C20": "checks.c20",
          "C07": "checks.c07", "C06": "checks.c06", "C03": "checks.c03"}


def check_module(prop):
    return importlib.import_module(CHECKS[prop])


def emit(obj):
    sys.stdout.write(json.dumps(obj, ensure_ascii=True) + "\n")
    sys.stdout.flush()


def reset_world():
    re.purge()
    gc.collect()


def run_one(mod, plan, inst, keep_log=False):
    """Executes a plan; returns ("ok", result) | ("violation", rule, detail) | ("harness", msg)."""
    reset_world()
    if getattr(mod, "FRESH_PER_RUN", True):
        # module/class-level state must not leak from one run into the next: a run has to be
        # replayable from its plan alone
        inst = loader.fresh_instance()
    try:
        return ("ok", mod.execute(plan, inst, keep_log=keep_log))
    except Violation as v:
        return ("violation", v.rule, v.detail)
    except HarnessError as e:
        return ("harness", "%s: %s" % (type(e).__name__, e))


def plan_for(mod, prop, verif_seed, index, tier):
    run_seed = H(verif_seed, prop, index)
    gi = getattr(mod, "generate_indexed", None)
    plan = gi(index, run_seed, tier) if gi else mod.generate(run_seed, tier)
    plan["format"] = kernel.FORMAT
    plan["property"] = prop
    plan["origin"] = {"verif_seed": verif_seed, "run_index": index, "run_seed": "%016x" % run_seed, "tier": tier}
    plan.setdefault("config", {})["hashseed"] = int(os.environ.get("PYTHONHASHSEED", "0"))
    return plan


def minimise(mod, plan, inst, rule):
    def fails(p):
        r = run_one(mod, p, inst)
        return r[0] == "violation" and r[1] == rule
    best, st = shrink.minimise(plan, fails, getattr(mod, "shrink_candidates", None),
                               budget_runs=getattr(mod, "SHRINK_RUNS", 400),
                               budget_s=getattr(mod, "SHRINK_SECONDS", 20.0))
    return best, st


def finalise_replay(mod, plan, inst, outdir, orig_sizes=None):
    """Executes plan with a kept log, stores rule/detail/digest in plan['expect'], writes it."""
    reset_world()
    lines, rule, detail = None, None, None
    try:
        mod.execute(plan, inst, keep_log=True)
    except Violation as v:
        rule, detail = v.rule, v.detail
    plan = copy.deepcopy(plan)
    plan["expect"] = {"rule": rule, "detail": detail, "fingerprint": kernel.digest_of([rule, _core(plan)])}
    if orig_sizes:
        plan["minimised_from"] = orig_sizes
    name = "%s-%s.json" % (plan["property"], plan["expect"]["fingerprint"])
    os.makedirs(outdir, exist_ok=True)
    path = os.path.join(outdir, name)
    with open(path, "w") as f:
        json.dump(plan, f, indent=1, ensure_ascii=True, sort_keys=True)
    return path, plan


def _core(plan):
    return {k: plan.get(k) for k in ("config", "world", "tasks", "schedule", "program")}


def main(argv):
    args = json.loads(argv[1])
    faulthandler.enable()
    if args.get("watchdog"):
        faulthandler.dump_traceback_later(args["watchdog"], exit=True)
    sys.setrecursionlimit(1000)
    inst = loader.install(args.get("src", "/repo/src"))
    mod = check_module(args["property"])
    mode = args["mode"]
    if mode == "explore":
        prop, tier, vs = args["property"], args["tier"], args["verif_seed"]
        deadline = time.time() + args["deadline_s"] if args.get("deadline_s") else None
        minimised = 0
        for index in range(args["start"], args["start"] + args["count"]):
            if deadline and time.time() > deadline:
                emit({"i": index, "status": "skipped_deadline"})
                continue
            plan = plan_for(mod, prop, vs, index, tier)
            t0 = time.perf_counter()
            r = run_one(mod, plan, inst)
            dt = time.perf_counter() - t0
            if r[0] == "ok":
                res = r[1]
                out = {"i": index, "status": "ok", "digest": res["digest"], "nontrivial": res.get("nontrivial", False),
                       "stats": res.get("stats", {}), "faults_fired": res.get("faults_fired", {}),
                       "cover": res.get("cover", []), "outcome": res.get("outcome"), "t": round(dt, 5),
                       "plan_digest": kernel.digest_of(_core(plan))}
                if args.get("sample_every") and index % args["sample_every"] == 0:
                    out["sample"] = plan
                emit(out)
            elif r[0] == "violation" and minimised >= args.get("max_minimise", 1):
                emit({"i": index, "status": "violation_more", "rule": r[1], "detail": r[2]})
            elif r[0] == "violation":
                minimised += 1
                rule = r[1]
                sizes = {"ops": sum(len(t) for t in plan.get("tasks", [])), "faults": sum(
                    len(op.get("faults") or ()) for t in plan.get("tasks", []) for op in t),
                    "tasks": len(plan.get("tasks", [])), "bytes": len(json.dumps(plan))}
                small, st = minimise(mod, plan, inst, rule)
                path, small = finalise_replay(mod, small, inst, args["outdir"], sizes)
                emit({"i": index, "status": "violation", "rule": rule, "detail": small["expect"]["detail"] or r[2],
                      "replay": path, "shrink": st, "fingerprint": small["expect"]["fingerprint"]})
            else:
                emit({"i": index, "status": "harness_error", "detail": r[1], "plan": plan})
    elif mode == "replay":
        with open(args["file"]) as f:
            plan = json.load(f)
        if plan.get("format") != kernel.FORMAT:
            emit({"status": "harness_error", "detail": "unknown plan format %r" % plan.get("format")})
            return 2
        r = run_one(mod, plan, inst, keep_log=bool(args.get("verbose")))
        if r[0] == "ok":
            emit({"status": "ok", "digest": r[1]["digest"], "outcome": r[1].get("outcome"),
                  "log": r[1].get("log") if args.get("verbose") else None})
        elif r[0] == "violation":
            emit({"status": "violation", "rule": r[1], "detail": r[2]})
        else:
            emit({"status": "harness_error", "detail": r[1]})
    elif mode == "digests":
        # determinism self-test helper: event digests of a range of runs, each executed twice
        prop, tier, vs = args["property"], args["tier"], args["verif_seed"]
        for index in range(args["start"], args["start"] + args["count"]):
            plan = plan_for(mod, prop, vs, index, tier)
            a = run_one(mod, plan, inst)
            b = run_one(mod, copy.deepcopy(plan), inst)
            da = a[1]["digest"] if a[0] == "ok" else repr(a)
            db = b[1]["digest"] if b[0] == "ok" else repr(b)
            core = _core(plan)
            core["config"] = {k: v for k, v in (core.get("config") or {}).items() if k != "hashseed"}
            emit({"i": index, "plan": kernel.digest_of(core), "d1": da, "d2": db})
    return 0
