"""Pattern corpus and text generators shared by the C11 / C14 / C20 workloads.

Patterns are recipes (sim.recipes); every one is short and non-pathological.  `words` are
witnesses / near misses used to assemble texts in which the pattern has matches.
"""

L = ["named", "AnyLetter"]
D = ["named", "AnyDigit"]
LOW = ["named", "AnyLowercaseLetter"]
W = ["named", "AnyWordChar"]
GREEK = ["named", "AnyGreekLetter"]
NOTWS = ["named", "AnyButWhitespace"]


def N(cls, *a, **kw):
    return ["new", cls] + list(a) + ([kw] if kw else [])


# name -> (recipe, words)
DSL = {
    "word": (N("OneOrMore", L), ["abc", "Zed", "x"]),
    "digits": (N("OneOrMore", D), ["12", "7", "2024"]),
    "kv": (["op", "+", ["op", "+", N("Capture", N("OneOrMore", L), "key"), ["lit", "="]],
            N("Capture", N("Indefinite", D), "val")], ["k=12", "ab=", "z=7"]),
    "optgrp": (["op", "+", N("Capture", L), N("Optional", N("Capture", D))], ["a1", "b", "c22"]),
    "linestart": (N("MatchAtLineStart", N("OneOrMore", NOTWS)), ["foo", "bar9", "#x"]),
    "lineend": (N("MatchAtLineEnd", N("OneOrMore", LOW)), ["end", "abc", "q"]),
    "strstart": (N("MatchAtStart", N("OneOrMore", W)), ["Start", "a_1"]),
    "strend": (N("MatchAtEnd", N("OneOrMore", W)), ["fin", "z9"]),
    "anyspan": (["op", "+", ["op", "+", ["lit", "a"], ["Any"]], ["lit", "b"]], ["a\nb", "axb", "a b", "ab"]),
    "greek": (N("OneOrMore", GREEK), ["αβγ", "Ωμέγα", "λ"]),
    "accent": (["lit", "é"], ["é", "café", "e"]),
    "astral": (N("Either", ["lit", "😀"], ["lit", "𝔘"]), ["😀", "𝔘x", "☺"]),
    "optx": (N("Optional", ["lit", "x"]), ["x", "xx", "y"]),
    "aa": (["lit", "aa"], ["aaa", "aaaa", "a"]),
    "a_opt_a": (["op", "+", ["lit", "a"], N("Optional", ["lit", "a"])], ["aaa", "a", "ba"]),
    "either": (N("Either", ["lit", "cat"], ["lit", "ca"], N("OneOrMore", D)), ["cat", "ca", "c4t"]),
    "backref": (["op", "+", N("Capture", L, "c"), N("Backreference", "c")], ["aa", "bb", "ab"]),
    "lookahead": (N("FollowedBy", N("OneOrMore", L), D), ["ab1", "ab", "c2"]),
    "lookbehind": (N("PrecededBy", N("OneOrMore", D), ["lit", "#"]), ["#12", "12", "#x"]),
    "notfollowed": (N("NotFollowedBy", ["lit", "q"], ["lit", "u"]), ["qu", "qa", "q"]),
    "wordb": (["op", "+", ["op", "+", N("WordBoundary"), ["lit", "is"]], N("WordBoundary")], ["is", "this", "is."]),
    "quotes": (["lit", "'\""], ["'\"", "'", "\"'"]),
    "backslash": (["lit", "a\\b"], ["a\\b", "ab", "a\\\\b"]),
    "ctrl": (["lit", "t\tn\n"], ["t\tn\n", "t\tn", "tn"]),
    "meta": (["lit", "1+1=2?"], ["1+1=2?", "11=2", "1+1=2"]),
    "cls_meta": (["AnyFrom", "]", "\\", "^", "-", "a"], ["]", "\\", "^-", "b"]),
    "neg_cls": (N("OneOrMore", ["AnyButFrom", "a", "\n", " "]), ["bcd", "a", "x y"]),
    "ci_group": (N("Group", ["lit", "abc"], True), ["ABC", "aBc", "ab"]),
    "alt_anchor": (N("Either", N("MatchAtStart", ["lit", "id"]), ["lit", "#"]), ["id", "see #42", "#", "xid 7"]),
    "alt_anchor_end": (N("Either", ["lit", "ab"], N("MatchAtEnd", ["lit", "z"])), ["z", "abz", "za", "ab z"]),
    "alt_line": (N("Either", N("MatchAtLineStart", ["lit", "x"]), N("MatchAtLineEnd", ["lit", "y"]), ["lit", "q"]), ["x", "ay\nxb", "yq", "\nx"]),
    "ci_prefix": (["op", "+", N("Group", ["lit", "ab"], True), ["lit", "cd"]], ["ABcd", "abCD", "ABCD", "abcd"]),
    "ci_suffix": (["op", "+", ["lit", "Ab"], N("Group", N("Either", ["lit", "x"], ["lit", "yz"]), True)], ["AbX", "abx", "AbYZ", "Abyz"]),
    "exactly": (N("Exactly", D, 3), ["123", "12", "12345"]),
    "lazy": (["op", "+", ["op", "+", ["lit", "<"], N("OneOrMore", ["Any"], False)], ["lit", ">"]], ["<a>", "<a><b>", "<\n>"]),
    "empty": (["empty"], ["", "a"]),
    "integer": (N("Integer", 0, 255), ["0", "255", "256", "07"]),
    "surrogate": (["lit", "\ud800"], ["\ud800", "x"]),
    # format characters around a match (variation selector, zero-width joiner, combining accent): nothing may treat
    # them differently from any other character when positions and context windows are computed
    # capturing groups right after an escaped backslash / next to escaped parentheses (group detection by text is easy to get wrong)
    "bs_capture": (["op", "+", ["lit", "\\"], N("Capture", D)], ["\\5", "\\\\7", "5", "x\\42"]),
    "paren_capture": (["op", "+", ["op", "+", ["lit", "("], N("Capture", N("OneOrMore", L))], ["lit", ")"]], ["(ab)", "(a)(b)", "()", "f(x)"]),
    "heart": (["lit", "\u2764"], ["\u2764\ufe0f", "\U0001f469\u200d\u2764\ufe0f\u200d\U0001f468", "a\u2764\u200db", "\u2764"]),
}

# hand-written (escape=False) valid regexes: C11 is about matching "all patterns"
RAW = {
    "raw_escnl": ("a\\\nb", ["a\nb", "a\\nb", "ab"]),
    "raw_escquote": ("\\'\"", ["'\"", "\\'\"", "'"]),
    "raw_alt": ("(?:ab|a)(?:c|bcd)?", ["abcd", "ab", "ac"]),
    "raw_dot": ("^.$", ["a", "\n", "ab"]),
    "raw_class": ("[\\w.-]+@[\\w-]+", ["a.b@c-d", "x@y", "@"]),
    "raw_named": ("(?P<y>\\d{4})-(?P<m>\\d\\d)?", ["2024-05", "1999-", "24-1"]),
    "raw_ws": ("\\s+$", ["  ", " \n", "x"]),
    "raw_lb": ("(?<=\\n)x|\\Ax", ["x", "\nx", "ax"]),
}

SEPARATORS = [" ", "\n", "  ", "\n\n", ", ", "\t", "\r\n", ".", "-", ""]


def recipe_of(name):
    if name in DSL:
        return DSL[name][0]
    return ["raw", RAW[name][0]]


def words_of(name):
    return (DSL.get(name) or RAW.get(name))[1]


FILLER = ["the", "Quick", "42", "x=1", "λόγος", "naïve", "—", "end.", "_", "日本", "0",
          "\u2764\ufe0f", "\U0001f3f3\ufe0f\u200d\U0001f308", "e\u0301", "\u200d", "x\ufe0f", "\u200b"]


def make_text(rng, names, max_words=8, multiline=None, final_newline=None):
    """Assembles a text from witnesses of the named patterns plus filler."""
    pool = []
    for n in names:
        pool.extend(words_of(n))
    k = rng.randint(0, max_words)
    if multiline is None:
        multiline = rng.random() < 0.6
    seps = [s for s in SEPARATORS if multiline or ("\n" not in s and "\r" not in s)]
    parts = []
    for i in range(k):
        parts.append(rng.choice(pool) if (pool and rng.random() < 0.7) else rng.choice(FILLER))
        if i < k - 1:
            parts.append(rng.choice(seps))
    text = "".join(parts)
    if final_newline is None:
        final_newline = rng.random() < 0.4
    if final_newline and multiline:
        text += "\n"
    return text


# texts of (about) n characters that a pattern matches *as a whole* (is_exact_match is True): long exact witnesses are
# what block-wise or prefix-based shortcuts get wrong
EXACT = {
    "word": lambda n: "a" * n,
    "digits": lambda n: "7" * n,
    "neg_cls": lambda n: "b" * n,
    "greek": lambda n: "\u03b1" * n,
    "lazy": lambda n: "<" + "x" * max(1, n - 2) + ">",
    "linestart": lambda n: "x" * n,
    "lineend": lambda n: "q" * n,
    "strstart": lambda n: "a_1" * max(1, n // 3),
    "strend": lambda n: "z9" * max(1, n // 2),
    "raw_ws": lambda n: " " * n,
    "anyspan": lambda n: "a\nb",
    "kv": lambda n: "k" * max(1, n - 3) + "=12",
    "raw_named": lambda n: "2024-05",
    "either": lambda n: "9" * n,
}
