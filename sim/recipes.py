"""Recipe language: JSON-able nested lists describing how to build a Pregex.

    ["lit", s]                       Pregex(s)                (escaped literal)
    ["raw", s]                       Pregex(s, escape=False)  (hand-written regex)
    ["empty"]                        Pregex()
    ["ref", id]                      an object of the pool (sharing / aliasing)
    ["new", Class, arg..., {kw}]     Class(*args, **kw)       (any public class, incl. meta)
    ["call", method, self, arg..., {kw}]    self.method(*args, **kw)
    ["op", sym, a, b]                a <sym> b for sym in + * | - ; ["op", "~", a]
    ["list", x, ...]                 a Python list argument
    class recipes of sim.classmodel  (AnyFrom, AnyButFrom, AnyBetween, AnyButBetween, named,
                                      Any, or, sub, inv, chr, tok)
Arguments that are not lists are JSON scalars passed through (str, int, bool, None).
"""
CLASS_HEADS = {"AnyFrom", "AnyButFrom", "AnyBetween", "AnyButBetween", "named", "Any",
               "or", "sub", "inv", "chr", "tok"}


def build(r, ns, pool=None):
    if not isinstance(r, list):
        return r
    head = r[0]
    if head == "lit":
        return ns["Pregex"](r[1])
    if head == "raw":
        return ns["Pregex"](r[1], escape=False)
    if head == "empty":
        return ns["Pregex"]()
    if head == "ref":
        return pool[r[1]]
    if head == "list":
        return [build(x, ns, pool) for x in r[1:]]
    if head in ("new", "call"):
        args = list(r[2:])
        kw = {}
        if args and isinstance(args[-1], dict):
            kw = {k: build(v, ns, pool) for k, v in args.pop().items()}
        if head == "new":
            return ns[r[1]](*[build(a, ns, pool) for a in args], **kw)
        obj = build(args[0], ns, pool)
        return getattr(obj, r[1])(*[build(a, ns, pool) for a in args[1:]], **kw)
    if head == "op":
        sym = r[1]
        a = build(r[2], ns, pool)
        if sym == "~":
            return ~a
        b = build(r[3], ns, pool)
        if sym == "+":
            return a + b
        if sym == "*":
            return a * b
        if sym == "|":
            return a | b
        if sym == "-":
            return a - b
        raise ValueError("unknown operator %r" % sym)
    if head in CLASS_HEADS:
        return _build_class(r, ns, pool)
    raise ValueError("unknown recipe head %r" % (head,))


def _build_class(r, ns, pool):
    op = r[0]
    if op == "chr":
        return r[1]
    if op == "tok":
        return ns[r[1]]()
    if op == "Any":
        return ns["Any"]()
    if op == "named":
        cls = ns[r[1]]
        return cls(is_global=True) if (len(r) > 2 and r[2]) else cls()
    if op in ("AnyFrom", "AnyButFrom", "AnyBetween", "AnyButBetween"):
        return ns[op](*[build(a, ns, pool) for a in r[1:]])
    if op == "inv":
        return ~build(r[1], ns, pool)
    if op == "or":
        return build(r[1], ns, pool) | build(r[2], ns, pool)
    if op == "sub":
        return build(r[1], ns, pool) - build(r[2], ns, pool)
    raise ValueError(op)


def refs(r, acc=None):
    """Pool ids a recipe refers to, in order of first occurrence."""
    acc = [] if acc is None else acc
    if isinstance(r, list):
        if r and r[0] == "ref":
            if r[1] not in acc:
                acc.append(r[1])
        else:
            for x in r:
                refs(x, acc)
    elif isinstance(r, dict):
        for v in r.values():
            refs(v, acc)
    return acc


def expand(r, table):
    """Tree-expands a recipe: every ["ref", id] replaced by the expanded recipe of id."""
    if isinstance(r, list):
        if r and r[0] == "ref":
            return expand(table[r[1]], table)
        return [expand(x, table) for x in r]
    if isinstance(r, dict):
        return {k: expand(v, table) for k, v in r.items()}
    return r


def size(r):
    if isinstance(r, list):
        return 1 + sum(size(x) for x in r[1:])
    if isinstance(r, dict):
        return sum(size(v) for v in r.values())
    return 0


def is_class_recipe(r):
    return isinstance(r, list) and r and r[0] in CLASS_HEADS and r[0] not in ("chr", "tok")
