"""The `re` seam: a pass-through proxy for the module object that pregex binds as `_re`.

It counts and logs the module-level calls pregex makes (which tells the compiled path from
the module path), can raise MemoryError *instead of* the n-th call of an armed op, and
offers the cache daemon's actions (purge, saturate).
"""
import re as _real_re

WRAPPED = ("search", "fullmatch", "finditer", "match", "compile", "sub", "subn", "findall", "split", "purge")


class ReProxy:
    def __init__(self):
        self._calls = []            # names of wrapped calls made during the current op
        self._armed = None          # call index (1-based) at which MemoryError is raised
        self.fired = 0
        self.total = 0

    def begin(self, fail_at=None):
        self._calls = []
        self._armed = fail_at

    def end(self):
        calls, self._calls, self._armed = self._calls, [], None
        return calls

    def __getattr__(self, name):
        target = getattr(_real_re, name)
        if name not in WRAPPED:
            return target
        proxy = self

        def wrapper(*a, **kw):
            proxy._calls.append(name)
            proxy.total += 1
            if proxy._armed is not None and len(proxy._calls) == proxy._armed:
                proxy._armed = None
                proxy.fired += 1
                raise MemoryError("simulated allocation failure in re.%s" % name)
            return target(*a, **kw)
        wrapper.__name__ = name
        return wrapper


def saturate(tag):
    """Fills the process-global re cache beyond its capacity with junk patterns, so that the
    next compile through the cache evicts."""
    n = getattr(_real_re, "_MAXCACHE", 512) + 8
    for k in range(n):
        _real_re.compile("j%s_%d" % (tag, k))
    return n


def cache_size():
    return len(getattr(_real_re, "_cache", ()))
