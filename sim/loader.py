"""Loads pregex from a source directory (default /repo/src) so that every check sees the
current working tree, and produces *fresh module instances* (all pregex.* modules
re-executed from cached code objects) on demand."""
import importlib
import importlib.abc
import importlib.util
import os
import sys
import types
import warnings

MODULES = [
    "pregex", "pregex.core", "pregex.core.exceptions", "pregex.core.pre",
    "pregex.core.classes", "pregex.core.tokens", "pregex.core.operators",
    "pregex.core.quantifiers", "pregex.core.groups", "pregex.core.assertions",
    "pregex.meta", "pregex.meta.essentials",
]
PUBLIC = ["pre", "classes", "tokens", "operators", "quantifiers", "groups", "assertions"]


class _Finder(importlib.abc.MetaPathFinder, importlib.abc.Loader):
    def __init__(self, src):
        self.src = src
        self.code = {}

    def _path(self, name):
        rel = name.replace(".", os.sep)
        pkg = os.path.join(self.src, rel, "__init__.py")
        if os.path.isfile(pkg):
            return pkg, True
        mod = os.path.join(self.src, rel + ".py")
        if os.path.isfile(mod):
            return mod, False
        return None, False

    def find_spec(self, name, path=None, target=None):
        if name != "pregex" and not name.startswith("pregex."):
            return None
        p, is_pkg = self._path(name)
        if p is None:
            return None
        spec = importlib.util.spec_from_loader(name, self, origin=p, is_package=is_pkg)
        if is_pkg:
            spec.submodule_search_locations = [os.path.dirname(p)]
        return spec

    def create_module(self, spec):
        return None

    def exec_module(self, module):
        p, _ = self._path(module.__name__)
        if p not in self.code:
            with open(p, "rb") as f:
                src = f.read()
            with warnings.catch_warnings():
                warnings.simplefilter("ignore")
                self.code[p] = compile(src, p, "exec", dont_inherit=True)
        module.__file__ = p
        exec(self.code[p], module.__dict__)


_FINDER = None


def install(src):
    """Makes `import pregex` resolve to <src>/pregex, whatever is installed."""
    global _FINDER
    src = os.path.abspath(src)
    if not os.path.isdir(os.path.join(src, "pregex")):
        raise FileNotFoundError("no pregex package under %s" % src)
    for k in [k for k in sys.modules if k == "pregex" or k.startswith("pregex.")]:
        del sys.modules[k]
    if _FINDER is not None and _FINDER in sys.meta_path:
        sys.meta_path.remove(_FINDER)
    _FINDER = _Finder(src)
    sys.meta_path.insert(0, _FINDER)
    return load_instance()


class Instance:
    """One loaded copy of pregex: .mods (name -> module) and .ns (public name -> class)."""

    def __init__(self, mods):
        self.mods = mods
        self.ns = {}
        for short in PUBLIC:
            m = mods.get("pregex.core." + short)
            if m is None:
                continue
            for k, v in vars(m).items():
                if isinstance(v, type) and not k.startswith("_") and v.__module__ == m.__name__:
                    self.ns[k] = v
        m = mods.get("pregex.meta.essentials")
        if m is not None:
            for k, v in vars(m).items():
                if isinstance(v, type) and not k.startswith("_") and v.__module__ == m.__name__:
                    self.ns[k] = v
        self.pre = mods.get("pregex.core.pre")
        self.classes = mods.get("pregex.core.classes")
        self.groups = mods.get("pregex.core.groups")
        self.exceptions = mods.get("pregex.core.exceptions")


def load_instance():
    """Imports all pregex modules as they are in sys.modules now (first call) ."""
    mods = {}
    with warnings.catch_warnings():
        warnings.simplefilter("ignore")
        for name in MODULES:
            try:
                mods[name] = importlib.import_module(name)
            except ModuleNotFoundError:
                pass
    return Instance(mods)


def fresh_instance():
    """Re-executes every pregex module into new module objects and returns them as a
    separate Instance; sys.modules is restored afterwards, so the long-lived instance
    stays the one that `import pregex` returns."""
    saved = {k: v for k, v in sys.modules.items() if k == "pregex" or k.startswith("pregex.")}
    for k in saved:
        del sys.modules[k]
    try:
        inst = load_instance()
    finally:
        for k in [k for k in sys.modules if k == "pregex" or k.startswith("pregex.")]:
            del sys.modules[k]
        sys.modules.update(saved)
    return inst
